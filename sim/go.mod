module verifsim

go 1.21

require (
	github.com/anishathalye/porcupine v1.3.0
	github.com/btcsuite/btcd v0.0.0-20190115013929-ed77733ec07d
	github.com/gogo/protobuf v1.3.1
	github.com/pokt-network/posmint v0.0.0
	github.com/tendermint/go-amino v0.15.0
	github.com/tendermint/iavl v0.12.4
	github.com/tendermint/tendermint v0.32.10
	github.com/tendermint/tm-db v0.2.0
)

require (
	github.com/beorn7/perks v1.0.0 // indirect
	github.com/davecgh/go-spew v1.1.1 // indirect
	github.com/go-kit/kit v0.9.0 // indirect
	github.com/go-logfmt/logfmt v0.4.0 // indirect
	github.com/golang/protobuf v1.3.2 // indirect
	github.com/golang/snappy v0.0.1 // indirect
	github.com/gorilla/websocket v1.4.1 // indirect
	github.com/libp2p/go-buffer-pool v0.0.2 // indirect
	github.com/matttproud/golang_protobuf_extensions v1.0.1 // indirect
	github.com/pkg/errors v0.8.1 // indirect
	github.com/pmezard/go-difflib v1.0.0 // indirect
	github.com/prometheus/client_golang v0.9.3 // indirect
	github.com/prometheus/client_model v0.0.0-20190812154241-14fe0d1b01d4 // indirect
	github.com/prometheus/common v0.4.0 // indirect
	github.com/prometheus/procfs v0.0.0-20190507164030-5867b95ac084 // indirect
	github.com/rcrowley/go-metrics v0.0.0-20180503174638-e2704e165165 // indirect
	github.com/rs/cors v1.7.0 // indirect
	github.com/stretchr/testify v1.4.0 // indirect
	github.com/syndtr/goleveldb v1.0.1-0.20190318030020-c3a204f8e965 // indirect
	golang.org/x/crypto v0.0.0-20190313024323-a1f597ede03a // indirect
	golang.org/x/net v0.0.0-20190628185345-da137c7871d7 // indirect
	golang.org/x/sys v0.0.0-20190813064441-fde4db37ae7a // indirect
	golang.org/x/text v0.3.0 // indirect
	google.golang.org/genproto v0.0.0-20190819201941-24fa4b261c55 // indirect
	google.golang.org/grpc v1.25.1 // indirect
	gopkg.in/yaml.v2 v2.2.4 // indirect
)

replace github.com/pokt-network/posmint => /repo

replace github.com/tendermint/tendermint => github.com/pokt-network/tendermint v0.32.11-0.20200616153411-15dcdd9fbf5f
