// Package keysim runs operation histories on the real database-backed keybase
// (crypto/keys) over the simulated disk, with reopen and crash-before-write
// faults, against a key-store model; the signature checks run on the keys that
// live in the simulated keybase.
package keysim

import (
	"bytes"
	"crypto/sha256"
	"encoding/binary"
	"encoding/hex"
	"encoding/json"
	"fmt"
	"sort"
	"strings"

	tmed "github.com/tendermint/tendermint/crypto/ed25519"
	tmsecp "github.com/tendermint/tendermint/crypto/secp256k1"

	"github.com/pokt-network/posmint/crypto/keys/mintkey"

	"github.com/pokt-network/posmint/crypto"
	"github.com/pokt-network/posmint/crypto/keys"
	sdk "github.com/pokt-network/posmint/types"

	"verifsim/core"
	"verifsim/simdb"
)

type Step struct {
	Op    string `json:"op"` // create import_obj import_armor update delete sign export_armor export_obj list get coinbase reopen crash multisig
	Slot  int    `json:"slot,omitempty"`  // key slot the op addresses / fills
	Slot2 int    `json:"slot2,omitempty"` // second keybase slot / armor slot
	Pass  string `json:"pass,omitempty"`
	Pass2 string `json:"pass2,omitempty"`
	Key   int    `json:"key,omitempty"` // deterministic key number for import_obj
	Msg   string `json:"msg,omitempty"`
	Mut   string `json:"mut,omitempty"` // multisig: none reorder duplicate missing truncate nested-misplaced
	Hint  string `json:"hint,omitempty"` // export_armor: the hint stored with the export
	K     int    `json:"k,omitempty"`    // crash: how many writes of the next operation succeed before the process dies
}

type Trace struct {
	Engine   string `json:"engine"`
	Property string `json:"property"`
	Seed     uint64 `json:"seed"`
	Steps    []Step `json:"steps"`
}

func (t *Trace) Marshal() []byte { b, _ := json.Marshal(t); return b }
func Unmarshal(b []byte) (*Trace, error) {
	var t Trace
	err := json.Unmarshal(b, &t)
	return &t, err
}
func (t *Trace) Clone() *Trace { c, _ := Unmarshal(t.Marshal()); return c }

type mKey struct {
	addr sdk.Address
	pub  crypto.PublicKey
	pass string
}

type exec struct {
	tr    *Trace
	db    *simdb.DB
	kb    keys.Keybase
	model map[string]*mKey // address hex -> key
	slots map[int]string   // slot -> address hex (last key created / imported into that slot)
	armors map[int]struct {
		armor string
		pass  string
		addr  string
	}
	res  *core.Result
	log  []string
	step int
	seed uint64
	crashNext bool
	crashK    int
}

func (e *exec) viol(oracle string, attrs map[string]string, f string, a ...interface{}) {
	v := core.Violation{Property: "C19", Oracle: oracle, Attrs: attrs, Step: e.step, Detail: fmt.Sprintf(f, a...)}
	for _, o := range e.res.Violations {
		if o.Signature() == v.Signature() {
			return
		}
	}
	e.res.Violations = append(e.res.Violations, v)
}

func detKey(seed uint64, n int) [64]byte {
	var b [16]byte
	binary.BigEndian.PutUint64(b[:], seed)
	binary.BigEndian.PutUint64(b[8:], uint64(n))
	h := sha256.Sum256(b[:])
	p := tmed.GenPrivKeyFromSecret(h[:])
	return [64]byte(p)
}

func Execute(tr *Trace) (*core.Result, error) {
	e := &exec{tr: tr, res: &core.Result{Stats: core.NewStats()}, model: map[string]*mKey{}, slots: map[int]string{}, seed: tr.Seed}
	e.armors = map[int]struct {
		armor string
		pass  string
		addr  string
	}{}
	e.db = simdb.New()
	e.kb = keys.NewKeybaseWithDB(e.db)
	for i := range tr.Steps {
		e.step = i
		e.do(&tr.Steps[i])
		e.checkListing()
	}
	h := sha256.New()
	for _, l := range e.log {
		h.Write([]byte(l))
		h.Write([]byte{'\n'})
	}
	for _, v := range e.res.Violations {
		h.Write([]byte(v.Signature()))
	}
	e.res.Digest = hex.EncodeToString(h.Sum(nil)[:12])
	th := sha256.Sum256(tr.Marshal())
	e.res.TraceHash = hex.EncodeToString(th[:8])
	c := e.res.Stats.Counters
	e.res.NonTrivial = c["keys_added"] >= 1 && c["ops"] >= 3
	return e.res, nil
}

// guarded runs f with the crash fault armed if requested: the crash fires before the next DB write.
func (e *exec) guarded(f func()) (crashed bool, pan interface{}) {
	if e.crashNext {
		e.db.CrashBefore(e.db.Seq() + int64(e.crashK))
	}
	func() {
		defer func() {
			if r := recover(); r != nil {
				if _, ok := r.(simdb.Crash); ok {
					crashed = true
				} else {
					pan = r
				}
			}
		}()
		f()
	}()
	e.db.CrashBefore(-1)
	if e.crashNext {
		e.crashNext = false
		if crashed {
			e.res.Stats.Fault("crash_before_write")
			if e.crashK > 0 {
				e.res.Stats.Fault("crash_between_writes")
			}
			// the process is gone: a new keybase object over what is durable
			e.db.Revive()
			e.kb = keys.NewKeybaseWithDB(e.db)
		} else {
			e.res.Stats.C("crash_armed_but_no_write", 1)
		}
	}
	return
}

func (e *exec) addrOf(slot int) (sdk.Address, *mKey) {
	ah, ok := e.slots[slot]
	if !ok {
		// an address nobody has
		k := detKey(e.seed^0x55, 1000+slot)
		return sdk.Address(crypto.Ed25519PrivateKey(k).PublicKey().Address()), nil
	}
	b, _ := hex.DecodeString(ah)
	return sdk.Address(b), e.model[ah]
}

func (e *exec) do(s *Step) {
	st := e.res.Stats
	st.C("ops", 1)
	st.C("op_"+s.Op, 1)
	before := e.db.Dump()
	midOp := e.crashNext && e.crashK > 0 // a crash, if it comes, comes after some writes of the operation
	unchanged := func(what string) {
		if midOp && strings.HasPrefix(what, "a crash") {
			// create/import: the key either made it (then it opens under the passphrase given) or it did not;
			// every other key is as before
			e.afterMidCrash(s, nil, nil)
			return
		}
		after := e.db.Dump()
		if !dumpsEqual(before, after) {
			e.viol("failed-op-changed-store", map[string]string{"op": s.Op, "what": what}, "%s with %s changed the stored keys", s.Op, what)
		}
	}
	switch s.Op {
	case "create":
		var kp keys.KeyPair
		var err error
		crashed, pan := e.guarded(func() { kp, err = e.kb.Create(s.Pass) })
		if pan != nil {
			e.viol("panic", map[string]string{"op": s.Op}, "Create panicked: %v", pan)
			return
		}
		if crashed {
			unchanged("a crash before the write")
			return
		}
		if err != nil {
			e.viol("create-failed", nil, "Create(%q) failed: %v", s.Pass, err)
			return
		}
		ah := hex.EncodeToString(kp.GetAddress())
		e.model[ah] = &mKey{addr: kp.GetAddress(), pub: kp.PublicKey, pass: s.Pass}
		e.slots[s.Slot] = ah
		st.C("keys_added", 1)
		e.log = append(e.log, "create ok") // the key itself is random: not part of the digest
	case "import_obj":
		raw := detKey(e.seed, s.Key)
		priv := crypto.Ed25519PrivateKey(raw)
		ah := hex.EncodeToString(priv.PublicKey().Address())
		_, exists := e.model[ah]
		var kp keys.KeyPair
		var err error
		crashed, pan := e.guarded(func() { kp, err = e.kb.ImportPrivateKeyObject(raw, s.Pass) })
		if pan != nil {
			e.viol("panic", map[string]string{"op": s.Op}, "ImportPrivateKeyObject panicked: %v", pan)
			return
		}
		e.log = append(e.log, fmt.Sprintf("import_obj k%d err=%v crashed=%v", s.Key, err != nil, crashed))
		if crashed {
			unchanged("a crash before the write")
			return
		}
		if exists {
			if err == nil {
				e.viol("import-overwrote-existing", map[string]string{"op": s.Op}, "importing a key whose address %s is already stored succeeded", ah)
				e.model[ah].pass = s.Pass
			} else {
				unchanged("an existing address")
				st.Probe("import_of_existing_address_refused")
			}
			return
		}
		if err != nil {
			e.viol("import-failed", map[string]string{"op": s.Op}, "importing a fresh key failed: %v", err)
			return
		}
		if hex.EncodeToString(kp.GetAddress()) != ah {
			e.viol("import-address", map[string]string{"op": s.Op}, "imported key reports address %X, the key's address is %s", kp.GetAddress(), ah)
		}
		e.model[ah] = &mKey{addr: kp.GetAddress(), pub: priv.PublicKey(), pass: s.Pass}
		e.slots[s.Slot] = ah
		st.C("keys_added", 1)
	case "import_secp":
		// a secp256k1 key can only come in as an armor (ImportPrivKey): armored under "arm", stored under s.Pass
		var b [16]byte
		binary.BigEndian.PutUint64(b[:], e.seed)
		binary.BigEndian.PutUint64(b[8:], uint64(1000+s.Key))
		h := sha256.Sum256(b[:])
		priv := crypto.Secp256k1PrivateKey(tmsecp.GenPrivKeySecp256k1(h[:]))
		ah := hex.EncodeToString(priv.PublicKey().Address())
		_, exists := e.model[ah]
		armor, aerr := mintkey.EncryptArmorPrivKey(priv, "arm", "")
		if aerr != nil {
			e.viol("import-failed", map[string]string{"op": s.Op}, "cannot armor a secp256k1 key: %v", aerr)
			return
		}
		var kp keys.KeyPair
		var err error
		crashed, pan := e.guarded(func() { kp, err = e.kb.ImportPrivKey(armor, "arm", s.Pass) })
		if pan != nil {
			e.viol("panic", map[string]string{"op": s.Op}, "ImportPrivKey panicked: %v", pan)
			return
		}
		e.log = append(e.log, fmt.Sprintf("import_secp k%d err=%v crashed=%v", s.Key, err != nil, crashed))
		if crashed {
			unchanged("a crash before the write")
			return
		}
		if exists {
			if err == nil {
				e.viol("import-overwrote-existing", map[string]string{"op": s.Op}, "importing a secp256k1 key whose address %s is already stored succeeded", ah)
				e.model[ah].pass = s.Pass
			} else {
				unchanged("an existing address")
				st.Probe("import_of_existing_address_refused")
			}
			return
		}
		if err != nil {
			e.viol("import-failed", map[string]string{"op": s.Op}, "importing a fresh secp256k1 key failed: %v", err)
			return
		}
		if hex.EncodeToString(kp.GetAddress()) != ah {
			e.viol("import-address", map[string]string{"op": s.Op}, "imported key reports address %X, the key's address is %s", kp.GetAddress(), ah)
		}
		e.model[ah] = &mKey{addr: kp.GetAddress(), pub: priv.PublicKey(), pass: s.Pass}
		e.slots[s.Slot] = ah
		st.C("keys_added", 1)
		st.Probe("secp256k1_key_stored")
	case "update":
		addr, mk := e.addrOf(s.Slot)
		var err error
		crashed, pan := e.guarded(func() { err = e.kb.Update(addr, s.Pass, s.Pass2) })
		if pan != nil {
			e.viol("panic", map[string]string{"op": s.Op}, "Update panicked: %v", pan)
			return
		}
		e.log = append(e.log, fmt.Sprintf("update err=%v crashed=%v", err != nil, crashed))
		if crashed && midOp {
			// the process died part-way through the re-encryption: whatever the operation does on disk, the key is
			// still there afterwards, under the old passphrase or under the new one
			e.afterMidCrash(s, addr, mk)
			return
		}
		if crashed {
			unchanged("a crash before the write")
			return
		}
		right := mk != nil && mk.pass == s.Pass
		switch {
		case right && err != nil:
			e.viol("update-refused", nil, "Update with the right passphrase failed: %v", err)
		case right:
			mk.pass = s.Pass2
			st.Probe("passphrase_changed")
		case err == nil:
			e.viol("wrong-passphrase-accepted", map[string]string{"op": s.Op}, "Update succeeded with a wrong passphrase / unknown key")
		default:
			unchanged("a wrong passphrase")
			st.Probe("wrong_passphrase_refused:update")
		}
	case "delete":
		addr, mk := e.addrOf(s.Slot)
		var err error
		crashed, pan := e.guarded(func() { err = e.kb.Delete(addr, s.Pass) })
		if pan != nil {
			e.viol("panic", map[string]string{"op": s.Op}, "Delete panicked: %v", pan)
			return
		}
		e.log = append(e.log, fmt.Sprintf("delete err=%v crashed=%v", err != nil, crashed))
		if crashed && midOp {
			e.afterMidCrash(s, addr, mk)
			return
		}
		if crashed {
			unchanged("a crash before the write")
			return
		}
		right := mk != nil && mk.pass == s.Pass
		switch {
		case right && err != nil:
			e.viol("delete-refused", nil, "Delete with the right passphrase failed: %v", err)
		case right:
			delete(e.model, hex.EncodeToString(addr))
			st.Probe("key_deleted")
		case err == nil:
			e.viol("wrong-passphrase-accepted", map[string]string{"op": s.Op}, "Delete succeeded with a wrong passphrase / unknown key")
		default:
			unchanged("a wrong passphrase")
			st.Probe("wrong_passphrase_refused:delete")
		}
	case "sign":
		addr, mk := e.addrOf(s.Slot)
		msg := []byte(s.Msg)
		sig, pub, err := e.kb.Sign(addr, s.Pass, msg)
		e.log = append(e.log, fmt.Sprintf("sign err=%v", err != nil))
		right := mk != nil && mk.pass == s.Pass
		if !right {
			if err == nil {
				e.viol("wrong-passphrase-accepted", map[string]string{"op": s.Op}, "Sign succeeded with a wrong passphrase / unknown key")
			} else {
				st.Probe("wrong_passphrase_refused:sign")
			}
			unchanged("a wrong passphrase")
			return
		}
		if err != nil {
			e.viol("sign-refused", nil, "Sign with the right passphrase failed: %v", err)
			return
		}
		if !bytes.Equal(pub.RawBytes(), mk.pub.RawBytes()) {
			e.viol("sign-wrong-key", nil, "Sign returned a public key that is not the stored one")
		}
		if !mk.pub.VerifyBytes(msg, sig) {
			e.viol("signature-verifies", nil, "the signature does not verify under the signer's key")
		}
		// under no other key of the run, and for no other message or signature
		for ah, o := range e.model {
			if ah != hex.EncodeToString(addr) && o.pub.VerifyBytes(msg, sig) {
				e.viol("signature-binds-key", nil, "the signature verifies under another key (%s)", ah)
			}
		}
		if mk.pub.VerifyBytes(append(append([]byte{}, msg...), 'x'), sig) {
			e.viol("signature-binds-message", nil, "the signature verifies for a different message")
		}
		bad := append([]byte{}, sig...)
		bad[len(bad)/2] ^= 1
		if mk.pub.VerifyBytes(msg, bad) {
			e.viol("signature-binds-message", map[string]string{"what": "sig-bit"}, "a signature with one bit flipped verifies")
		}
		if len(sig) > 1 && mk.pub.VerifyBytes(msg, sig[:len(sig)-1]) {
			e.viol("signature-binds-message", map[string]string{"what": "truncated"}, "a truncated signature verifies")
		}
		// ... nor does its tail verify for the message extended by its head (the boundary between message and signature is part of what was signed)
		for _, k := range []int{1, len(sig) / 2, len(sig) - 1} {
			if k > 0 && k < len(sig) && mk.pub.VerifyBytes(append(append([]byte{}, msg...), sig[:k]...), sig[k:]) {
				e.viol("signature-binds-message", map[string]string{"what": "shifted-boundary"}, "after (m, s) verified, (m || s[:%d], s[%d:]) verifies too", k, k)
			}
		}
		// messages related by hashing: a signature over H(m) is no signature over m, nor the other way round
		hm := sha256.Sum256(msg)
		if mk.pub.VerifyBytes(hm[:], sig) {
			e.viol("signature-binds-message", map[string]string{"what": "hash-of-message"}, "a signature over m verifies for SHA-256(m)")
		}
		if sigH, _, herr := e.kb.Sign(addr, s.Pass, hm[:]); herr == nil && mk.pub.VerifyBytes(msg, sigH) {
			e.viol("signature-binds-message", map[string]string{"what": "preimage-of-message"}, "a signature over SHA-256(m) verifies for m")
		}
		st.C("signatures_checked", 1)
	case "export_armor":
		addr, mk := e.addrOf(s.Slot)
		armor, err := e.kb.ExportPrivKeyEncryptedArmor(addr, s.Pass, s.Pass2, s.Hint)
		e.log = append(e.log, fmt.Sprintf("export_armor err=%v", err != nil))
		unchanged("an export")
		right := mk != nil && mk.pass == s.Pass
		if !right {
			if err == nil {
				e.viol("wrong-passphrase-accepted", map[string]string{"op": s.Op}, "export succeeded with a wrong passphrase / unknown key")
			} else {
				st.Probe("wrong_passphrase_refused:export")
			}
			return
		}
		if err != nil {
			e.viol("export-refused", nil, "export with the right passphrase failed: %v", err)
			return
		}
		e.armors[s.Slot2] = struct {
			armor string
			pass  string
			addr  string
		}{armor, s.Pass2, hex.EncodeToString(addr)}
		st.Probe("armor_exported")
	case "import_armor":
		// into a SECOND keybase (fresh disk): the same key and address must come out, a wrong passphrase must yield nothing
		a, ok := e.armors[s.Slot2]
		if !ok {
			return
		}
		db2 := simdb.New()
		kb2 := keys.NewKeybaseWithDB(db2)
		kp, err := kb2.ImportPrivKey(a.armor, s.Pass, "newpass")
		e.log = append(e.log, fmt.Sprintf("import_armor err=%v", err != nil))
		if s.Pass != a.pass {
			if err == nil {
				e.viol("wrong-passphrase-accepted", map[string]string{"op": s.Op}, "importing an export succeeded under a wrong passphrase")
			} else if db2.Len() != 0 {
				e.viol("failed-op-changed-store", map[string]string{"op": s.Op, "what": "wrong passphrase"}, "a refused import wrote %d keys", db2.Len())
			} else {
				st.Probe("wrong_passphrase_refused:import")
			}
			return
		}
		if err != nil {
			e.viol("import-failed", map[string]string{"op": s.Op}, "importing an export under the right passphrase failed: %v", err)
			return
		}
		if hex.EncodeToString(kp.GetAddress()) != a.addr {
			e.viol("export-import-roundtrip", map[string]string{"what": "address"}, "the imported key has address %X, the exported key had %s", kp.GetAddress(), a.addr)
		}
		if mk, ok := e.model[a.addr]; ok {
			if !bytes.Equal(kp.PublicKey.RawBytes(), mk.pub.RawBytes()) {
				e.viol("export-import-roundtrip", map[string]string{"what": "pubkey"}, "the imported key has another public key")
			}
			// a signature by the imported key verifies under the original
			sig, _, err := kb2.Sign(kp.GetAddress(), "newpass", []byte("roundtrip"))
			if err != nil || !mk.pub.VerifyBytes([]byte("roundtrip"), sig) {
				e.viol("export-import-roundtrip", map[string]string{"what": "signature"}, "a signature by the imported key does not verify under the original key (err %v)", err)
			}
		}
		// importing it again into the same keybase is refused
		if _, err := kb2.ImportPrivKey(a.armor, s.Pass, "x"); err == nil {
			e.viol("import-overwrote-existing", map[string]string{"op": s.Op}, "importing an already stored address succeeded")
		}
		st.Probe("export_import_roundtrip")
	case "export_obj":
		addr, mk := e.addrOf(s.Slot)
		priv, err := e.kb.ExportPrivateKeyObject(addr, s.Pass)
		e.log = append(e.log, fmt.Sprintf("export_obj err=%v", err != nil))
		unchanged("an export")
		right := mk != nil && mk.pass == s.Pass
		if !right {
			if err == nil {
				e.viol("wrong-passphrase-accepted", map[string]string{"op": s.Op}, "raw export succeeded with a wrong passphrase / unknown key")
			}
			return
		}
		if err != nil {
			e.viol("export-refused", nil, "raw export with the right passphrase failed: %v", err)
			return
		}
		if !bytes.Equal(priv.PublicKey().RawBytes(), mk.pub.RawBytes()) {
			e.viol("export-import-roundtrip", map[string]string{"what": "raw-key"}, "the exported private key belongs to another public key")
		}
	case "get":
		addr, mk := e.addrOf(s.Slot)
		kp, err := e.kb.Get(addr)
		if (err == nil) != (mk != nil) {
			e.viol("get-vs-model", nil, "Get(%X): err=%v, the model has the key: %v", addr, err, mk != nil)
		} else if mk != nil && !bytes.Equal(kp.PublicKey.RawBytes(), mk.pub.RawBytes()) {
			e.viol("get-vs-model", map[string]string{"what": "pubkey"}, "Get returned another public key")
		}
	case "coinbase":
		addr, mk := e.addrOf(s.Slot)
		err := e.kb.SetCoinbase(addr)
		if (err == nil) != (mk != nil) {
			e.viol("coinbase", nil, "SetCoinbase(%X): err=%v, key stored: %v", addr, err, mk != nil)
		}
		if err == nil {
			cb, err2 := e.kb.GetCoinbase()
			if err2 != nil || !bytes.Equal(cb.GetAddress(), addr) {
				e.viol("coinbase", map[string]string{"what": "get"}, "GetCoinbase after SetCoinbase(%X) returned %X err=%v", addr, cb.GetAddress(), err2)
			}
		}
		unchanged("a coinbase selection")
	case "reopen":
		e.kb = keys.NewKeybaseWithDB(e.db)
		st.Fault("restart")
		e.log = append(e.log, "reopen")
	case "crash":
		e.crashNext = true
		e.crashK = s.K
	case "power_loss":
		// the machine loses power: whatever the keybase wrote without asking for it to be synced is gone; every
		// operation it had reported as done must still be in effect afterwards
		n := e.db.UndoLast(8)
		e.kb = keys.NewKeybaseWithDB(e.db)
		st.Fault("power_loss")
		if n > 0 {
			st.C("unsynced_writes_lost", int64(n))
		}
		e.log = append(e.log, fmt.Sprintf("power_loss undone=%d", n))
		var ahs []string
		for ah := range e.model {
			ahs = append(ahs, ah)
		}
		sort.Strings(ahs)
		for _, ah := range ahs {
			k := e.model[ah]
			msg := []byte("after-power-loss")
			sig, _, err := e.kb.Sign(k.addr, k.pass, msg)
			if err != nil || !k.pub.VerifyBytes(msg, sig) {
				e.viol("lost-on-power-failure", nil, "after a power failure (%d unsynced write(s) lost) key %s is gone or no longer opens under the passphrase its last completed operation left it with: %v", n, ah[:8], err)
			}
		}
		if list, err := e.kb.List(); err == nil && len(list) != len(e.model) {
			e.viol("lost-on-power-failure", map[string]string{"what": "listing"}, "after a power failure the keybase lists %d keys, %d operations' worth of keys were reported stored or deleted", len(list), len(e.model))
		}
	case "multisig":
		e.multisig(s)
	}
}

func dumpsEqual(a, b [][2][]byte) bool {
	if len(a) != len(b) {
		return false
	}
	for i := range a {
		if !bytes.Equal(a[i][0], b[i][0]) || !bytes.Equal(a[i][1], b[i][1]) {
			return false
		}
	}
	return true
}

// checkListing: List() equals the model after every step.
// afterMidCrash: the process died after some - not all - writes of operation s (which addressed key addr, known to the
// model as mk). No key may be lost or altered by that: every key of the model is still stored and opens under its
// passphrase; the addressed key of an update may open under the new passphrase instead, the addressed key of a delete
// may be gone; a create/import may have added its key (it then opens under the passphrase given).
func (e *exec) afterMidCrash(s *Step, addr sdk.Address, mk *mKey) {
	opens := func(a sdk.Address, pub crypto.PublicKey, pass string) bool {
		msg := []byte("after-crash")
		sig, _, err := e.kb.Sign(a, pass, msg)
		return err == nil && pub.VerifyBytes(msg, sig)
	}
	target := ""
	if mk != nil && mk.pass == s.Pass {
		target = hex.EncodeToString(addr)
	}
	var ahs []string
	for ah := range e.model {
		ahs = append(ahs, ah)
	}
	sort.Strings(ahs)
	for _, ah := range ahs {
		k := e.model[ah]
		switch {
		case opens(k.addr, k.pub, k.pass):
		case ah == target && s.Op == "update" && opens(k.addr, k.pub, s.Pass2):
			k.pass = s.Pass2
			e.res.Stats.Probe("mid_crash_update_took_effect")
		case ah == target && s.Op == "delete":
			if _, err := e.kb.Get(k.addr); err == nil {
				e.viol("key-damaged-by-crash", map[string]string{"op": s.Op}, "after a crash inside Delete the key is listed but does not open under its passphrase")
			}
			delete(e.model, ah)
		default:
			e.viol("key-lost-in-crash", map[string]string{"op": s.Op}, "after a crash inside %s (%d write(s) done) key %s is gone or no longer opens under its passphrase", s.Op, e.crashK, ah[:8])
		}
	}
	// keys the model does not know: only the one a create/import was adding
	if list, err := e.kb.List(); err == nil {
		for _, kp := range list {
			ah := hex.EncodeToString(kp.GetAddress())
			if _, ok := e.model[ah]; ok {
				continue
			}
			if (s.Op == "create" || strings.HasPrefix(s.Op, "import")) && opens(kp.GetAddress(), kp.PublicKey, s.Pass) {
				e.model[ah] = &mKey{addr: kp.GetAddress(), pub: kp.PublicKey, pass: s.Pass}
				e.slots[s.Slot] = ah
				continue
			}
			e.viol("key-damaged-by-crash", map[string]string{"op": s.Op}, "after a crash inside %s the keybase lists key %s which nobody can open", s.Op, ah[:8])
		}
	}
	e.res.Stats.Probe("mid_operation_crash_checked")
}

func (e *exec) checkListing() {
	kps, err := e.kb.List()
	if err != nil {
		e.viol("list-vs-model", map[string]string{"what": "error"}, "List failed: %v", err)
		return
	}
	got := map[string]bool{}
	for _, kp := range kps {
		ah := hex.EncodeToString(kp.GetAddress())
		got[ah] = true
		mk, ok := e.model[ah]
		if !ok {
			e.viol("list-vs-model", map[string]string{"what": "extra"}, "List shows %s which the model does not have", ah)
		} else if !bytes.Equal(kp.PublicKey.RawBytes(), mk.pub.RawBytes()) {
			e.viol("list-vs-model", map[string]string{"what": "pubkey"}, "List shows another public key for %s", ah)
		}
	}
	for ah := range e.model {
		if !got[ah] {
			e.viol("list-vs-model", map[string]string{"what": "missing"}, "List lacks %s", ah)
		}
	}
	e.res.Stats.State(fmt.Sprintf("keys=%d", len(e.model)))
}

// multisig: an N-of-N positional multisignature over keys of the run verifies only when every listed
// key signed the message in its own position.
func (e *exec) multisig(s *Step) {
	var addrs []string
	for ah := range e.model {
		addrs = append(addrs, ah)
	}
	sort.Strings(addrs)
	if len(addrs) < 2 {
		return
	}
	n := 2 + s.Key%3
	if n > len(addrs) {
		n = len(addrs)
	}
	var privs []crypto.PrivateKey
	var pubs []crypto.PublicKey
	for _, ah := range addrs[:n] {
		mk := e.model[ah]
		p, err := e.kb.ExportPrivateKeyObject(mk.addr, mk.pass)
		if err != nil {
			e.viol("export-refused", nil, "raw export with the right passphrase failed: %v", err)
			return
		}
		privs = append(privs, p)
		pubs = append(pubs, mk.pub)
	}
	msg := []byte("multi:" + s.Msg)
	pk := crypto.PublicKeyMultiSignature{PublicKeys: pubs}
	var sigs [][]byte
	for _, p := range privs {
		sg, _ := p.Sign(msg)
		sigs = append(sigs, sg)
	}
	good := crypto.MultiSignature{Sigs: sigs}.Marshal()
	e.res.Stats.C("multisig_checked", 1)
	if !pk.VerifyBytes(msg, good) {
		e.viol("multisig-verifies", nil, "an in-order %d-of-%d multisignature does not verify", n, n)
		return
	}
	if pk.VerifyBytes(append(msg, 'x'), good) {
		e.viol("multisig-binds", map[string]string{"what": "message"}, "a multisignature verifies for another message")
	}
	bad := func(what string, ss [][]byte) {
		if pk.VerifyBytes(msg, crypto.MultiSignature{Sigs: ss}.Marshal()) {
			e.viol("multisig-binds", map[string]string{"what": what}, "a multisignature with %s components verifies", what)
		}
	}
	rev := make([][]byte, n)
	for i := range sigs {
		rev[n-1-i] = sigs[i]
	}
	bad("reordered", rev)
	dup := append([][]byte{}, sigs...)
	dup[n-1] = sigs[0]
	bad("duplicated", dup)
	bad("missing", sigs[:n-1])
	tr := append([][]byte{}, sigs...)
	tr[0] = tr[0][:len(tr[0])-1]
	bad("truncated", tr)
	bad("extra", append(append([][]byte{}, sigs...), sigs[0]))
	// placeholder slots: the one-byte filler a partially signed multisignature carries for those who have not signed
	fill := append([][]byte{}, sigs...)
	fill[n-1] = []byte{0}
	bad("one-filler", fill)
	allFill := make([][]byte, n)
	for i := range allFill {
		allFill[i] = []byte{0}
	}
	bad("all-fillers", allFill)
	empty := append([][]byte{}, sigs...)
	empty[0] = []byte{}
	bad("empty-slot", empty)
	// nested: the multisig key as a component of another one; its signature is the marshalled inner multisignature
	outerPubs := []crypto.PublicKey{pubs[0], pk}
	outer := crypto.PublicKeyMultiSignature{PublicKeys: outerPubs}
	s0, _ := privs[0].Sign(msg)
	if !outer.VerifyBytes(msg, crypto.MultiSignature{Sigs: [][]byte{s0, good}}.Marshal()) {
		e.viol("multisig-verifies", map[string]string{"what": "nested"}, "a nested multisignature in order does not verify")
	}
	if outer.VerifyBytes(msg, crypto.MultiSignature{Sigs: [][]byte{good, s0}}.Marshal()) {
		e.viol("multisig-binds", map[string]string{"what": "nested-misplaced"}, "a nested multisignature with misplaced components verifies")
	}
	// every defect of the flat case again one level down: the inner component is short, empty, reordered, duplicated, long
	innerBad := func(what string, ss [][]byte) {
		inner := crypto.MultiSignature{Sigs: ss}.Marshal()
		if outer.VerifyBytes(msg, crypto.MultiSignature{Sigs: [][]byte{s0, inner}}.Marshal()) {
			e.viol("multisig-binds", map[string]string{"what": "nested-inner-" + what}, "a nested multisignature whose inner component is %s verifies", what)
		}
	}
	innerBad("missing", sigs[:n-1])
	innerBad("empty", nil)
	innerBad("reordered", rev)
	innerBad("duplicated", dup)
	innerBad("truncated", tr)
	innerBad("extra", append(append([][]byte{}, sigs...), sigs[0]))
	// and two levels down
	outer2 := crypto.PublicKeyMultiSignature{PublicKeys: []crypto.PublicKey{outer, pubs[1]}}
	s1, _ := privs[1].Sign(msg)
	goodOuter := crypto.MultiSignature{Sigs: [][]byte{s0, good}}.Marshal()
	if !outer2.VerifyBytes(msg, crypto.MultiSignature{Sigs: [][]byte{goodOuter, s1}}.Marshal()) {
		e.viol("multisig-verifies", map[string]string{"what": "nested-twice"}, "a doubly nested multisignature in order does not verify")
	}
	shortInner := crypto.MultiSignature{Sigs: [][]byte{s0, crypto.MultiSignature{Sigs: sigs[:n-1]}.Marshal()}}.Marshal()
	if outer2.VerifyBytes(msg, crypto.MultiSignature{Sigs: [][]byte{shortInner, s1}}.Marshal()) {
		e.viol("multisig-binds", map[string]string{"what": "nested-twice-inner-missing"}, "a doubly nested multisignature with a short innermost component verifies")
	}
}
