package keysim

import (
	"fmt"
	"strings"

	"verifsim/core"
)

type Engine struct{}

func (Engine) Name() string { return "keysim" }

func (Engine) Plan(property, tier string) core.Plan {
	p := core.Plan{Level: "exploration", MaxWall: 170, Runs: 1000,
		Components: map[string]string{
			"posmint crypto/keys (dbKeybase), crypto/keys/mintkey (scrypt + AES-GCM armor), crypto (ed25519, multisig)": "real code",
			"disk (goleveldb)":        "stub: SimDB (write events; crash before the first, second or third write of the next operation; power failure that drops the unsynced suffix)",
			"crypto/rand (Create, salts)": "real, not seeded: excluded from the digest, no oracle depends on it",
		},
		Rule: "one case = one seeded history of create/import/update/delete/sign/export/import-into-a-second-keybase/coinbase/multisig steps with reopen, crash-before-write and power-failure faults, passphrases from {empty, ascii, unicode, 300 characters, wrong}; compared with a key-store model after every step; " +
			"distinct = distinct trace digest; non-trivial = at least one key stored and three operations",
		Assumptions: []string{
			"the signature half (a pure function) is checked only as a per-operation oracle on the keys living in the simulated keybase",
			"the crash fault fires before the first, second or third DB write of the next operation (today every keybase operation issues one write, so the later points fire only on code that writes more)",
		}}
	if tier == "thorough" {
		p.Runs = 12000
		p.MaxWall = 1800
	}
	return p
}

// passphrases: empty, ascii, unicode, long ones that differ only far into the string (in bytes: beyond 72, 128, 256),
// one that is a prefix of another
var passes = []string{"", "pw", "пароль✓", strings.Repeat("x", 300), "other", strings.Repeat("x", 299) + "y", strings.Repeat("x", 128) + "A",
	strings.Repeat("x", 128), strings.Repeat("й", 70) + "1", strings.Repeat("й", 70) + "2", "pw ", strings.Repeat("q", 72) + "1", strings.Repeat("q", 72) + "2", " pw", "pw\n", "\u00a0pw\t"}

func Generate(property, tier string, seed uint64) *Trace {
	r := core.NewRng(seed)
	tr := &Trace{Engine: "keysim", Property: property, Seed: seed}
	n := r.Range(6, 16)
	slotPass := map[int]string{}
	nextSlot := 0
	armorSlot := 0
	pick := func() string { return passes[r.Intn(len(passes))] }
	known := func() (int, string) {
		if nextSlot == 0 {
			return 0, "pw"
		}
		s := r.Intn(nextSlot)
		return s, slotPass[s]
	}
	for i := 0; i < n; i++ {
		if r.Chance(0.06) {
			tr.Steps = append(tr.Steps, Step{Op: "power_loss"})
		}
		if r.Chance(0.12) {
			tr.Steps = append(tr.Steps, Step{Op: "crash", K: []int{0, 0, 1, 1, 2}[r.Intn(5)]})
		}
		switch r.Pick([]int{4, 4, 4, 3, 5, 4, 3, 2, 2, 2, 2, 3, 4}) {
		case 0:
			p := pick()
			tr.Steps = append(tr.Steps, Step{Op: "create", Slot: nextSlot, Pass: p})
			slotPass[nextSlot] = p
			nextSlot++
		case 1:
			p := pick()
			tr.Steps = append(tr.Steps, Step{Op: "import_obj", Slot: nextSlot, Key: r.Intn(4), Pass: p})
			slotPass[nextSlot] = p
			nextSlot++
		case 2:
			s, p := known()
			np := pick()
			if r.Chance(0.3) {
				p = pick() // possibly wrong
			}
			tr.Steps = append(tr.Steps, Step{Op: "update", Slot: s, Pass: p, Pass2: np})
			// the generator does not know whether p was right (Create may have crashed): the executor's model decides
			if p == slotPass[s] {
				slotPass[s] = np
			}
		case 3:
			s, p := known()
			if r.Chance(0.4) {
				p = pick()
			}
			tr.Steps = append(tr.Steps, Step{Op: "delete", Slot: s, Pass: p})
		case 4:
			s, p := known()
			if r.Chance(0.3) {
				p = pick()
			}
			tr.Steps = append(tr.Steps, Step{Op: "sign", Slot: s, Pass: p, Msg: "m" + string(rune('a'+r.Intn(20)))})
		case 5:
			s, p := known()
			if r.Chance(0.25) {
				p = pick()
			}
			ep := pick()
			if r.Chance(0.3) {
				ep = p // re-export under the passphrase offered for decryption (right or wrong)
			}
			hint := "hint"
			if r.Chance(0.5) {
				hint = ""
			} else if r.Chance(0.4) {
				// what a terminal or a careless caller puts there: escape sequences, control characters, quotes, markup
				hint = []string{"\x1b[A", "a\x00b", "\x7f", "q\"uote\\", "<b>&amp;", "\a\v", "line\nbreak", "\U0001F511 key"}[r.Intn(8)]
			}
			tr.Steps = append(tr.Steps, Step{Op: "export_armor", Slot: s, Slot2: armorSlot, Pass: p, Pass2: ep, Hint: hint})
			ip := ep
			if r.Chance(0.35) {
				ip = pick()
			}
			tr.Steps = append(tr.Steps, Step{Op: "import_armor", Slot2: armorSlot, Pass: ip})
			armorSlot++
		case 6:
			s, p := known()
			if r.Chance(0.3) {
				p = pick()
			}
			tr.Steps = append(tr.Steps, Step{Op: "export_obj", Slot: s, Pass: p})
		case 7:
			s, _ := known()
			if r.Chance(0.2) {
				s = 99
			}
			tr.Steps = append(tr.Steps, Step{Op: "get", Slot: s})
		case 8:
			s, _ := known()
			tr.Steps = append(tr.Steps, Step{Op: "coinbase", Slot: s})
		case 9:
			tr.Steps = append(tr.Steps, Step{Op: "reopen"})
		case 10:
			tr.Steps = append(tr.Steps, Step{Op: "multisig", Key: r.Intn(3), Msg: "x"})
		case 11:
			// import of an address that is already stored
			tr.Steps = append(tr.Steps, Step{Op: "import_obj", Slot: nextSlot, Key: r.Intn(4), Pass: pick()})
			nextSlot++
		case 12:
			// secp256k1 keys come in as armors; a small pool so that the same key is imported again
			p := pick()
			tr.Steps = append(tr.Steps, Step{Op: "import_secp", Slot: nextSlot, Key: r.Intn(3), Pass: p})
			slotPass[nextSlot] = p
			nextSlot++
		}
	}
	return tr
}

func (Engine) Generate(property, tier string, seed uint64, idx uint64) []byte {
	return Generate(property, tier, seed).Marshal()
}

func (Engine) Execute(trace []byte) (*core.Result, error) {
	tr, err := Unmarshal(trace)
	if err != nil {
		return nil, err
	}
	return Execute(tr)
}

func (Engine) Sample(trace []byte) interface{} {
	tr, err := Unmarshal(trace)
	if err != nil {
		return string(trace)
	}
	c := tr.Clone()
	for i := range c.Steps {
		if len(c.Steps[i].Pass) > 20 {
			c.Steps[i].Pass = fmt.Sprintf("%s...%s(%d bytes)", c.Steps[i].Pass[:4], c.Steps[i].Pass[len(c.Steps[i].Pass)-1:], len(c.Steps[i].Pass))
		}
		if len(c.Steps[i].Pass2) > 20 {
			c.Steps[i].Pass2 = fmt.Sprintf("%s...%s(%d bytes)", c.Steps[i].Pass2[:4], c.Steps[i].Pass2[len(c.Steps[i].Pass2)-1:], len(c.Steps[i].Pass2))
		}
	}
	return c.Steps
}

func (Engine) Shrink(trace []byte, keep func([]byte) bool, sb core.ShrinkBudget) []byte {
	tr, err := Unmarshal(trace)
	if err != nil {
		return trace
	}
	sb.MaxExec = 60 // every execution costs scrypt time
	b := core.NewBudget(sb)
	build := func(k []int) *Trace {
		c := tr.Clone()
		c.Steps = nil
		for _, i := range k {
			c.Steps = append(c.Steps, tr.Steps[i])
		}
		return c
	}
	k := core.DDMin(len(tr.Steps), func(k []int) bool {
		if b.Exhausted() {
			return false
		}
		return keep(build(k).Marshal())
	}, b)
	return build(k).Marshal()
}
