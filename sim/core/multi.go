package core

import (
	"encoding/json"
)

// Multi runs several engines under one check: run index i goes to the engine
// Pattern[i % len(Pattern)] names. Traces carry an "engine" field for dispatch.
type Multi struct {
	Label   string
	Engines map[string]Engine
	Pattern []string
}

func (m Multi) Name() string { return m.Label }

func (m Multi) pick(idx uint64) Engine { return m.Engines[m.Pattern[int(idx%uint64(len(m.Pattern)))]] }

func (m Multi) byTrace(trace []byte) Engine {
	var h struct {
		Engine string `json:"engine"`
	}
	json.Unmarshal(trace, &h)
	if e, ok := m.Engines[h.Engine]; ok {
		return e
	}
	return m.Engines[m.Pattern[0]]
}

func (m Multi) Plan(property, tier string) Plan {
	// the first engine of the pattern gives level / wall cap; runs are summed in pattern proportion
	first := m.Engines[m.Pattern[0]].Plan(property, tier)
	p := first
	cnt := map[string]int{}
	for _, n := range m.Pattern {
		cnt[n]++
	}
	// choose the total so that the first engine gets its planned number of runs
	p.Runs = first.Runs * len(m.Pattern) / cnt[m.Pattern[0]]
	p.Rule = ""
	p.Components = map[string]string{}
	seen := map[string]bool{}
	for _, n := range m.Pattern {
		if seen[n] {
			continue
		}
		seen[n] = true
		ep := m.Engines[n].Plan(property, tier)
		p.Rule += "[" + n + "] " + ep.Rule + " "
		for k, v := range ep.Components {
			p.Components[k] = v
		}
		for _, a := range ep.Assumptions {
			dup := false
			for _, b := range p.Assumptions {
				dup = dup || a == b
			}
			if !dup {
				p.Assumptions = append(p.Assumptions, a)
			}
		}
		if ep.MaxWall > p.MaxWall {
			p.MaxWall = ep.MaxWall
		}
	}
	return p
}

func (m Multi) Generate(property, tier string, seed uint64, idx uint64) []byte {
	return m.pick(idx).Generate(property, tier, seed, idx)
}
func (m Multi) Execute(trace []byte) (*Result, error) { return m.byTrace(trace).Execute(trace) }
func (m Multi) Shrink(trace []byte, keep func([]byte) bool, b ShrinkBudget) []byte {
	return m.byTrace(trace).Shrink(trace, keep, b)
}
func (m Multi) Sample(trace []byte) interface{} { return m.byTrace(trace).Sample(trace) }
