// present so that the compiler accepts the body-less go:linkname declaration
