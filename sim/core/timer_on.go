//go:build timerseam

package core

import "time"

// TimerSeamAvailable reports whether timers run under simulated time while the wall clock is set.
const TimerSeamAvailable = true

// AdvanceSimClock moves simulated time forward (a stalled node): time.Now jumps and every timer armed under
// simulated time whose deadline is reached fires. It returns how many fired.
func AdvanceSimClock(d time.Duration) int { return time.AdvanceSim(d) }
