package core

import (
	"bufio"
	"encoding/json"
	"fmt"
	"os"
	"os/exec"
	"path/filepath"
	"sort"
	"strconv"
	"sync"
	"time"
)

// Engine is one simulator (chainsim, storesim, kvsim, keysim).
type Engine interface {
	Name() string
	// Plan says how many runs a check of property p at this tier consists of.
	Plan(property, tier string) Plan
	// Generate builds the complete trace of a run from its seed. Pure.
	Generate(property, tier string, seed uint64, idx uint64) []byte
	// Execute runs a trace against the real code. Deterministic.
	Execute(trace []byte) (*Result, error)
	// Shrink minimises a failing trace; keep reports whether a candidate still
	// shows the same violation signature.
	Shrink(trace []byte, keep func(candidate []byte) bool, budget ShrinkBudget) []byte
	// Sample renders a trace compactly for the evidence file.
	Sample(trace []byte) interface{}
}

type Plan struct {
	Runs        int      // number of runs (fixed per tier: the same seed explores the same runs)
	MaxWall     float64  // wall-clock cap in seconds (safety; hitting it is reported in the evidence)
	Level       string   // exploration | fault_enumeration
	Rule        string   // how cases are generated and what makes one non-trivial
	Assumptions []string // trusted base
	Components  map[string]string
}

type ShrinkBudget struct {
	MaxExec int
	MaxWall time.Duration
}

type ReplayFile struct {
	Engine    string          `json:"engine"`
	Property  string          `json:"property"`
	Seed      uint64          `json:"seed"`
	RunIndex  uint64          `json:"run_index"`
	Signature string          `json:"signature"`
	Violation Violation       `json:"first_violation"`
	Trace     json.RawMessage `json:"trace"`
}

// ---- worker side

type workerMsg struct {
	Type      string     `json:"type"` // violation | known | done
	Violation *Violation `json:"violation,omitempty"`
	Replay    string     `json:"replay,omitempty"`
	FindingID string     `json:"finding_id,omitempty"`
	What      string     `json:"what,omitempty"`

	Evaluations int               `json:"evaluations,omitempty"`
	NonTrivial  []string          `json:"nontrivial,omitempty"`
	Stats       *Stats            `json:"stats,omitempty"`
	States      []string          `json:"states,omitempty"`
	Trans       []string          `json:"trans,omitempty"`
	Samples     []interface{}     `json:"samples,omitempty"`
	Other       map[string]int64  `json:"other,omitempty"` // violations that belong to other properties
	Digests     map[string]string `json:"digests,omitempty"`
	HitWall     bool              `json:"hit_wall,omitempty"`
}

type WorkerArgs struct {
	Property  string
	Tier      string
	VerifSeed uint64
	Worker    int
	Workers   int
	VerifDir  string
	WantDigests bool
}

// RunWorker executes the runs idx ≡ Worker (mod Workers) and streams JSON lines to stdout.
func RunWorker(e Engine, a WorkerArgs) int {
	out := bufio.NewWriter(os.Stdout)
	defer out.Flush()
	emit := func(m workerMsg) {
		b, _ := json.Marshal(m)
		out.Write(b)
		out.WriteByte('\n')
		out.Flush()
	}
	findings, err := LoadFindings(filepath.Join(a.VerifDir, "known_findings.json"))
	if err != nil {
		fmt.Fprintln(os.Stderr, err)
		return 2
	}
	plan := e.Plan(a.Property, a.Tier)
	start := time.Now()
	total := NewStats()
	nontriv := map[string]bool{}
	other := map[string]int64{}
	digests := map[string]string{}
	var samples []interface{}
	evals := 0
	hitWall := false
	knownSeen := map[string]bool{}
	inflight := filepath.Join(a.VerifDir, "build", "inflight")
	os.MkdirAll(inflight, 0755)
	inflightFile := filepath.Join(inflight, fmt.Sprintf("%s-%s-w%d.json", e.Name(), a.Property, a.Worker))
	violations := 0
	for idx := a.Worker; idx < plan.Runs; idx += a.Workers {
		if time.Since(start).Seconds() > plan.MaxWall {
			hitWall = true
			break
		}
		seed := RunSeed(a.VerifSeed, a.Property, e.Name(), uint64(idx))
		trace := e.Generate(a.Property, a.Tier, seed, uint64(idx))
		// written ahead of execution so that a worker death leaves the trace behind
		os.WriteFile(inflightFile, trace, 0644)
		res, err := e.Execute(trace)
		if err != nil {
			fmt.Fprintf(os.Stderr, "harness error idx=%d seed=%d: %v\n", idx, seed, err)
			return 2
		}
		evals++
		if os.Getenv("VERIF_MEMDEBUG") != "" && evals%20 == 0 {
			memDebug(evals)
		}
		total.Merge(res.Stats)
		if res.NonTrivial {
			nontriv[res.TraceHash] = true
		}
		if a.WantDigests {
			digests[strconv.Itoa(idx)] = res.Digest
		}
		if len(samples) < 2 && res.NonTrivial {
			samples = append(samples, e.Sample(trace))
		}
		reported := map[string]bool{}
		for _, v := range res.Violations {
			if v.Property != a.Property {
				other[v.Property]++
				continue
			}
			sig := v.Signature()
			if reported[sig] {
				continue
			}
			reported[sig] = true
			if f := MatchFinding(findings, v); f != nil {
				if !knownSeen[f.ID] {
					knownSeen[f.ID] = true
					emit(workerMsg{Type: "known", FindingID: f.ID, What: f.What})
				}
				continue
			}
			// unknown violation: minimise and write the replay file
			keep := func(c []byte) bool {
				r2, err := e.Execute(c)
				if err != nil {
					return false
				}
				for _, v2 := range r2.Violations {
					if v2.Signature() == sig {
						return true
					}
				}
				return false
			}
			small := e.Shrink(trace, keep, ShrinkBudget{MaxExec: 400, MaxWall: 90 * time.Second})
			// re-execute the minimised trace to record its first violation
			fv := v
			if r3, err := e.Execute(small); err == nil {
				for _, v3 := range r3.Violations {
					if v3.Signature() == sig {
						fv = v3
						break
					}
				}
			}
			rf := ReplayFile{Engine: e.Name(), Property: a.Property, Seed: seed, RunIndex: uint64(idx), Signature: sig, Violation: fv, Trace: small}
			dir := filepath.Join(a.VerifDir, "replays", a.Property)
			os.MkdirAll(dir, 0755)
			path := filepath.Join(dir, fmt.Sprintf("%d-%s.json", seed, fv.SigHash()))
			b, _ := json.MarshalIndent(rf, "", " ")
			os.WriteFile(path, append(b, '\n'), 0644)
			emit(workerMsg{Type: "violation", Violation: &fv, Replay: path})
			violations++
		}
		if violations >= 2 {
			break
		}
	}
	os.Remove(inflightFile)
	nt := make([]string, 0, len(nontriv))
	for k := range nontriv {
		nt = append(nt, k)
	}
	st := make([]string, 0, len(total.States))
	for k := range total.States {
		st = append(st, k)
	}
	tr := make([]string, 0, len(total.Trans))
	for k := range total.Trans {
		tr = append(tr, k)
	}
	emit(workerMsg{Type: "done", Evaluations: evals, NonTrivial: nt, Stats: total, States: st, Trans: tr,
		Samples: samples, Other: other, Digests: digests, HitWall: hitWall})
	return 0
}

// ---- supervisor side

type CheckArgs struct {
	Property  string
	Tier      string
	VerifSeed uint64
	Workers   int
	VerifDir  string
	Self      string // path of this binary
	EngineArg string
	WantDigests bool
	Quiet     bool
	NoEvidence bool
}

type CheckOutcome struct {
	Exit        int
	Evaluations int
	Digests     map[string]string
	Violations  []workerMsg
}

// RunCheck forks the workers, merges what they report, writes the evidence
// file and returns the exit code (0 held, 1 violation, 2 harness trouble).
func RunCheck(e Engine, a CheckArgs) CheckOutcome {
	plan := e.Plan(a.Property, a.Tier)
	start := time.Now()
	if a.Workers > plan.Runs {
		a.Workers = plan.Runs
	}
	if a.Workers < 1 {
		a.Workers = 1
	}
	type wres struct {
		msgs []workerMsg
		err  error
		code int
		stderr string
	}
	results := make([]wres, a.Workers)
	var wg sync.WaitGroup
	for w := 0; w < a.Workers; w++ {
		wg.Add(1)
		go func(w int) {
			defer wg.Done()
			args := []string{"worker", "-engine", a.EngineArg, "-property", a.Property, "-tier", a.Tier,
				"-seed", strconv.FormatUint(a.VerifSeed, 10), "-worker", strconv.Itoa(w), "-workers", strconv.Itoa(a.Workers),
				"-verif", a.VerifDir}
			if a.WantDigests {
				args = append(args, "-digests")
			}
			cmd := exec.Command(a.Self, args...)
			cmd.Env = append(os.Environ(), "GOMEMLIMIT=3GiB")
			stdout, _ := cmd.StdoutPipe()
			os.MkdirAll(filepath.Join(a.VerifDir, "build"), 0o755)
			errf, ferr := os.CreateTemp(filepath.Join(a.VerifDir, "build"), "worker-stderr-*")
			if ferr != nil {
				results[w].err = ferr
				results[w].code = -1
				return
			}
			cmd.Stderr = errf
			if err := cmd.Start(); err != nil {
				results[w].err = err
				return
			}
			sc := bufio.NewScanner(stdout)
			sc.Buffer(make([]byte, 1<<20), 1<<28)
			for sc.Scan() {
				var m workerMsg
				if err := json.Unmarshal(sc.Bytes(), &m); err == nil {
					results[w].msgs = append(results[w].msgs, m)
				}
			}
			err := cmd.Wait()
			if err != nil {
				results[w].err = err
				if ee, ok := err.(*exec.ExitError); ok {
					results[w].code = ee.ExitCode()
				} else {
					results[w].code = -1
				}
			}
			errf.Seek(0, 0)
			buf := make([]byte, 8192)
			n, _ := errf.Read(buf)
			results[w].stderr = string(buf[:n])
			errf.Close()
			os.Remove(errf.Name())
		}(w)
	}
	wg.Wait()

	out := CheckOutcome{Digests: map[string]string{}}
	total := NewStats()
	nontriv := map[string]bool{}
	other := map[string]int64{}
	var samples []interface{}
	known := map[string]string{}
	hitWall := false
	harness := false
	for w, r := range results {
		done := false
		for _, m := range r.msgs {
			switch m.Type {
			case "violation":
				out.Violations = append(out.Violations, m)
			case "known":
				known[m.FindingID] = m.What
			case "done":
				done = true
				out.Evaluations += m.Evaluations
				for _, h := range m.NonTrivial {
					nontriv[h] = true
				}
				if m.Stats != nil {
					total.Merge(m.Stats)
				}
				for _, s := range m.States {
					total.States[s] = true
				}
				for _, s := range m.Trans {
					total.Trans[s] = true
				}
				if len(samples) < 3 {
					samples = append(samples, m.Samples...)
				}
				addMap(other, m.Other)
				for k, v := range m.Digests {
					out.Digests[k] = v
				}
				hitWall = hitWall || m.HitWall
			}
		}
		if !done {
			harness = true
			fmt.Fprintf(os.Stderr, "HARNESS: worker %d of check %s ended without a result (exit %d): %v\n%s\n", w, a.Property, r.code, r.err, r.stderr)
		}
	}
	wall := time.Since(start).Seconds()
	if len(samples) > 3 {
		samples = samples[:3]
	}
	if len(samples) == 0 {
		samples = append(samples, "no non-trivial run in this batch")
	}
	fids := make([]string, 0, len(known))
	for id := range known {
		fids = append(fids, id)
	}
	sort.Strings(fids)
	if !a.NoEvidence {
		cov := map[string]interface{}{
			"evaluations":         out.Evaluations,
			"distinct_nontrivial": len(nontriv),
			"rule":                plan.Rule,
			"samples":             samples,
			"exhaustive":          false,
			"runs_per_hour":       int(float64(out.Evaluations) / wall * 3600),
			"simulated_seconds":   float64(total.SimNanos) / 1e9,
			"counters":            total.Counters,
			"faults_fired":        total.Faults,
			"probes_hit":          total.Probes,
			"halts_observed":      total.Halts,
			"states":              len(total.States),
			"transitions":         len(total.Trans),
			"components":          plan.Components,
			"workers":             a.Workers,
			"planned_runs":        plan.Runs,
			"hit_wall_clock_cap":  hitWall,
			"other_property_invariants_fired": other,
			"known_findings_hit":  fids,
		}
		ev := &Evidence{PropertyID: a.Property, Tier: a.Tier, Seed: int64(a.VerifSeed), Level: plan.Level, Coverage: cov,
			Assumptions: plan.Assumptions, WallS: wall, Violations: len(out.Violations)}
		os.MkdirAll(filepath.Join(a.VerifDir, "evidence"), 0755)
		if err := WriteEvidence(filepath.Join(a.VerifDir, "evidence", a.Property+".json"), ev); err != nil {
			fmt.Fprintln(os.Stderr, "HARNESS: cannot write evidence:", err)
			harness = true
		}
	}
	if !a.Quiet {
		for _, id := range fids {
			fmt.Printf("KNOWN-FINDING: property=%s %s: %s\n", a.Property, id, known[id])
		}
		seen := map[string]bool{}
		for _, m := range out.Violations {
			if seen[m.Replay] {
				continue
			}
			seen[m.Replay] = true
			fmt.Printf("VIOLATION property=%s replay=%s\n", a.Property, m.Replay)
			fmt.Printf("  oracle=%s attrs=%v step=%d\n  %s\n", m.Violation.Oracle, m.Violation.Attrs, m.Violation.Step, m.Violation.Detail)
		}
		fmt.Printf("check %s tier=%s seed=%d: %d runs, %d distinct non-trivial, %d states, %.1fs, violations=%d\n",
			a.Property, a.Tier, a.VerifSeed, out.Evaluations, len(nontriv), len(total.States), wall, len(out.Violations))
	}
	if blind := total.Counters["blind_runs"]; blind*2 > int64(out.Evaluations) && len(out.Violations) == 0 {
		// a clean result from runs that could not look at the system under test is no result
		fmt.Fprintf(os.Stderr, "HARNESS: %d of %d runs of check %s could not observe the application's state (exit 2, not a violation)\n", blind, out.Evaluations, a.Property)
		harness = true
	}
	switch {
	case len(out.Violations) > 0:
		out.Exit = 1
	case harness:
		out.Exit = 2
	default:
		out.Exit = 0
	}
	return out
}

// RunReplay re-executes a replay file and reports whether the same signature shows.
func RunReplay(e Engine, path string) int {
	b, err := os.ReadFile(path)
	if err != nil {
		fmt.Fprintln(os.Stderr, err)
		return 2
	}
	var rf ReplayFile
	if err := json.Unmarshal(b, &rf); err != nil {
		fmt.Fprintln(os.Stderr, err)
		return 2
	}
	res, err := e.Execute(rf.Trace)
	if err != nil {
		fmt.Fprintln(os.Stderr, "harness error:", err)
		return 2
	}
	for _, v := range res.Violations {
		if v.Signature() == rf.Signature {
			fmt.Printf("VIOLATION property=%s replay=%s\n  oracle=%s attrs=%v step=%d\n  %s\n", rf.Property, path, v.Oracle, v.Attrs, v.Step, v.Detail)
			return 1
		}
	}
	fmt.Printf("NOT-REPRODUCED property=%s replay=%s (violations seen: %d)\n", rf.Property, path, len(res.Violations))
	for _, v := range res.Violations {
		fmt.Printf("  other: %s  %s\n", v.Signature(), v.Detail)
	}
	return 2
}
