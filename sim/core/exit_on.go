//go:build exitseam

package core

import "os"

// ExitSeamAvailable reports whether os.Exit passes the simulator's hook first.
const ExitSeamAvailable = true

// SetExitHook installs f as the first thing os.Exit does (nil removes it).
func SetExitHook(f func(code int)) { os.SimExitHook = f }
