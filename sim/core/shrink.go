package core

import "time"

// DDMin minimises the index set {0..n-1} under test (delta debugging, removing
// chunks of decreasing size). test(keep) must return true when the candidate
// consisting of exactly the indices in keep (ascending) still fails the same way.
func DDMin(n int, test func(keep []int) bool, b *Budget) []int {
	cur := make([]int, n)
	for i := range cur {
		cur[i] = i
	}
	chunk := (len(cur) + 1) / 2
	for chunk >= 1 && len(cur) > 0 {
		removed := false
		for start := 0; start < len(cur); {
			if b.Exhausted() {
				return cur
			}
			end := start + chunk
			if end > len(cur) {
				end = len(cur)
			}
			cand := make([]int, 0, len(cur)-(end-start))
			cand = append(cand, cur[:start]...)
			cand = append(cand, cur[end:]...)
			b.Used++
			if test(cand) {
				cur = cand
				removed = true
			} else {
				start = end
			}
		}
		if !removed || chunk > len(cur) {
			chunk /= 2
		} else if chunk > 1 {
			// try the same granularity once more on the smaller list, then halve
			chunk = (chunk + 1) / 2
		} else if !removed {
			break
		} else {
			// chunk == 1 and something was removed: one more sweep
			continue
		}
	}
	return cur
}

type Budget struct {
	MaxExec  int
	Deadline time.Time
	Used     int
}

func NewBudget(sb ShrinkBudget) *Budget {
	return &Budget{MaxExec: sb.MaxExec, Deadline: time.Now().Add(sb.MaxWall)}
}

func (b *Budget) Exhausted() bool {
	return b.Used >= b.MaxExec || time.Now().After(b.Deadline)
}
