//go:build !timerseam

package core

import "time"

const TimerSeamAvailable = false

func AdvanceSimClock(d time.Duration) int { return 0 }
