//go:build !clockseam

package core

const ClockSeamAvailable = false

func SetWallClock(unixNano int64) {}
func ClearWallClock()             {}
