//go:build mapseam

package core

import _ "unsafe"

//go:linkname simSetMapSeed runtime.simSetMapSeed
func simSetMapSeed(on bool, seed uint64)

// MapSeamAvailable reports whether the runtime overlay that seeds Go map
// iteration order is compiled in.
const MapSeamAvailable = true

// SetMapSeed makes every later map iteration start / hash seed a pure function
// of seed and the number of maps touched since this call.
func SetMapSeed(seed uint64) { simSetMapSeed(true, seed) }

// ClearMapSeed returns to the runtime's own randomisation.
func ClearMapSeed() { simSetMapSeed(false, 0) }
