//go:build clockseam

package core

import "time"

// ClockSeamAvailable reports whether the overlay that makes time.Now settable is compiled in.
const ClockSeamAvailable = true

// SetWallClock makes time.Now() return the given instant until ClearWallClock.
func SetWallClock(unixNano int64) { time.SetSimNow(true, unixNano) }

// ClearWallClock returns to the real clock.
func ClearWallClock() { time.SetSimNow(false, 0) }
