// Package core holds what every engine shares: the PRNG derivation, result
// and evidence types, the multi-process supervisor, delta-debugging and the
// known-findings file.
package core

import (
	"math/rand"
)

// SplitMix64 is the only mixing function used to derive seeds.
func SplitMix64(x uint64) uint64 {
	x += 0x9E3779B97F4A7C15
	z := x
	z = (z ^ (z >> 30)) * 0xBF58476D1CE4E5B9
	z = (z ^ (z >> 27)) * 0x94D049BB133111EB
	return z ^ (z >> 31)
}

// HashString folds a string into a uint64 (FNV-1a), used only to mix
// property / engine names into seeds.
func HashString(s string) uint64 {
	h := uint64(14695981039346656037)
	for i := 0; i < len(s); i++ {
		h ^= uint64(s[i])
		h *= 1099511628211
	}
	return h
}

// RunSeed derives the seed of run #idx of a check from VERIF_SEED.
func RunSeed(verifSeed uint64, property string, engine string, idx uint64) uint64 {
	x := SplitMix64(verifSeed ^ 0xA5A5A5A5)
	x = SplitMix64(x ^ HashString(property))
	x = SplitMix64(x ^ HashString(engine))
	x = SplitMix64(x ^ idx)
	return x
}

type smSource struct{ s uint64 }

func (s *smSource) Seed(seed int64) { s.s = uint64(seed) }
func (s *smSource) Uint64() uint64 {
	s.s += 0x9E3779B97F4A7C15
	z := s.s
	z = (z ^ (z >> 30)) * 0xBF58476D1CE4E5B9
	z = (z ^ (z >> 27)) * 0x94D049BB133111EB
	return z ^ (z >> 31)
}
func (s *smSource) Int63() int64 { return int64(s.Uint64() >> 1) }

// NewRand returns the run-owned PRNG: every choice of a run comes from it.
func NewRand(seed uint64) *rand.Rand { return rand.New(&smSource{s: seed}) }

// Rng wraps *rand.Rand with the helpers generators use.
type Rng struct{ *rand.Rand }

func NewRng(seed uint64) *Rng { return &Rng{NewRand(seed)} }

// Chance returns true with probability p.
func (r *Rng) Chance(p float64) bool { return r.Float64() < p }

// Range returns an int in [lo,hi].
func (r *Rng) Range(lo, hi int) int {
	if hi <= lo {
		return lo
	}
	return lo + r.Intn(hi-lo+1)
}

// Range64 returns an int64 in [lo,hi].
func (r *Rng) Range64(lo, hi int64) int64 {
	if hi <= lo {
		return lo
	}
	return lo + r.Int63n(hi-lo+1)
}

// Pick returns an index according to integer weights.
func (r *Rng) Pick(weights []int) int {
	t := 0
	for _, w := range weights {
		t += w
	}
	if t <= 0 {
		return 0
	}
	x := r.Intn(t)
	for i, w := range weights {
		if x < w {
			return i
		}
		x -= w
	}
	return len(weights) - 1
}
