package core

import (
	"fmt"
	"os"
	"runtime"
	"runtime/pprof"
)

// memDebug (VERIF_MEMDEBUG=1, development only): live heap and goroutines after a collection.
func memDebug(evals int) {
	runtime.GC()
	var m runtime.MemStats
	runtime.ReadMemStats(&m)
	fmt.Fprintf(os.Stderr, "memdebug evals=%d goroutines=%d heapInuse=%dMB sys=%dMB\n", evals, runtime.NumGoroutine(), m.HeapInuse>>20, m.Sys>>20)
	if f := os.Getenv("VERIF_MEMPROF"); f != "" {
		if w, err := os.Create(f); err == nil {
			pprof.WriteHeapProfile(w)
			w.Close()
		}
		if w, err := os.Create(f + ".goroutines"); err == nil {
			pprof.Lookup("goroutine").WriteTo(w, 1)
			w.Close()
		}
	}
}
