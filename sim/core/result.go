package core

import (
	"crypto/sha256"
	"encoding/hex"
	"encoding/json"
	"fmt"
	"os"
	"sort"
	"strings"
)

// Violation is one oracle failure observed in a run.
type Violation struct {
	Property string            `json:"property"`
	Oracle   string            `json:"oracle"`
	Attrs    map[string]string `json:"attrs,omitempty"` // discriminating attributes: part of the signature
	Step     int               `json:"step"`
	Detail   string            `json:"detail"` // free text, not part of the signature
}

// Signature is the stable identity of a violation class: property, oracle and
// attributes. Shrinking preserves it; known findings are matched against it.
func (v Violation) Signature() string {
	keys := make([]string, 0, len(v.Attrs))
	for k := range v.Attrs {
		keys = append(keys, k)
	}
	sort.Strings(keys)
	var sb strings.Builder
	sb.WriteString(v.Property + "/" + v.Oracle)
	for _, k := range keys {
		sb.WriteString(";" + k + "=" + v.Attrs[k])
	}
	return sb.String()
}

func (v Violation) SigHash() string {
	h := sha256.Sum256([]byte(v.Signature()))
	return hex.EncodeToString(h[:5])
}

// Stats are the measured counters of a run (merged over runs and workers).
type Stats struct {
	Counters map[string]int64 `json:"counters,omitempty"` // blocks, txs, ops ...
	Faults   map[string]int64 `json:"faults,omitempty"`   // fault kind -> times it actually fired
	Probes   map[string]int64 `json:"probes,omitempty"`   // rare condition -> times reached
	Halts    map[string]int64 `json:"halts,omitempty"`    // chain halts by cause (observations, not violations)
	States   map[string]bool  `json:"-"`                  // abstract states reached
	Trans    map[string]bool  `json:"-"`                  // abstract transitions reached
	SimNanos int64            `json:"sim_nanos"`          // simulated time covered
}

func NewStats() *Stats {
	return &Stats{Counters: map[string]int64{}, Faults: map[string]int64{}, Probes: map[string]int64{},
		Halts: map[string]int64{}, States: map[string]bool{}, Trans: map[string]bool{}}
}

func (s *Stats) C(k string, n int64)  { s.Counters[k] += n }
func (s *Stats) Fault(k string)       { s.Faults[k]++ }
func (s *Stats) Probe(k string)       { s.Probes[k]++ }
func (s *Stats) Halt(k string)        { s.Halts[k]++ }
func (s *Stats) State(k string)       { s.States[k] = true }
func (s *Stats) Transition(k string)  { s.Trans[k] = true }
func addMap(dst, src map[string]int64) {
	for k, v := range src {
		dst[k] += v
	}
}
func (s *Stats) Merge(o *Stats) {
	if o == nil {
		return
	}
	addMap(s.Counters, o.Counters)
	addMap(s.Faults, o.Faults)
	addMap(s.Probes, o.Probes)
	addMap(s.Halts, o.Halts)
	for k := range o.States {
		s.States[k] = true
	}
	for k := range o.Trans {
		s.Trans[k] = true
	}
	s.SimNanos += o.SimNanos
}

// Result is what Execute returns for one trace.
type Result struct {
	Violations []Violation
	Stats      *Stats
	Digest     string // digest of the complete event log: equal for equal (seed, code)
	NonTrivial bool   // at least one state-changing step and one event the property is about
	TraceHash  string // digest of the trace itself (distinctness)
}

// ViolationsFor filters the violations that belong to property p.
func (r *Result) ViolationsFor(p string) []Violation {
	var out []Violation
	for _, v := range r.Violations {
		if v.Property == p {
			out = append(out, v)
		}
	}
	return out
}

// ---------------------------------------------------------------- known findings

type Finding struct {
	Property string            `json:"property"`
	Status   string            `json:"status"` // "open" or "fixed: <commit>"
	ID       string            `json:"id"`
	Oracle   string            `json:"oracle,omitempty"`
	Attrs    map[string]string `json:"attrs,omitempty"`
	What     string            `json:"what"`
}

// LoadFindings reads the committed known-findings file. It is never written at run time.
func LoadFindings(path string) ([]Finding, error) {
	b, err := os.ReadFile(path)
	if err != nil {
		if os.IsNotExist(err) {
			return nil, nil
		}
		return nil, err
	}
	var fs []Finding
	if err := json.Unmarshal(b, &fs); err != nil {
		return nil, fmt.Errorf("known findings: %v", err)
	}
	return fs, nil
}

// MatchFinding returns the open finding whose signature covers v, if any.
// A finding covers v when property and oracle are equal and every attribute
// the finding lists has the same value in v. "fixed:" entries match nothing.
func MatchFinding(fs []Finding, v Violation) *Finding {
	for i := range fs {
		f := &fs[i]
		if f.Status != "open" || f.Property != v.Property || f.Oracle != v.Oracle {
			continue
		}
		ok := true
		for k, want := range f.Attrs {
			if v.Attrs[k] != want {
				ok = false
				break
			}
		}
		if ok {
			return f
		}
	}
	return nil
}

// ---------------------------------------------------------------- evidence

type Evidence struct {
	PropertyID  string                 `json:"property_id"`
	Tier        string                 `json:"tier"`
	Seed        int64                  `json:"seed"`
	Level       string                 `json:"level"`
	Coverage    map[string]interface{} `json:"coverage"`
	Assumptions []string               `json:"assumptions"`
	WallS       float64                `json:"wall_s"`
	Violations  int                    `json:"violations"`
}

func WriteEvidence(path string, e *Evidence) error {
	b, err := json.MarshalIndent(e, "", " ")
	if err != nil {
		return err
	}
	tmp := path + ".tmp"
	if err := os.WriteFile(tmp, append(b, '\n'), 0644); err != nil {
		return err
	}
	return os.Rename(tmp, path)
}

func SortedKeys(m map[string]int64) []string {
	ks := make([]string, 0, len(m))
	for k := range m {
		ks = append(ks, k)
	}
	sort.Strings(ks)
	return ks
}

func Digest(parts ...[]byte) string {
	h := sha256.New()
	for _, p := range parts {
		h.Write(p)
		h.Write([]byte{0})
	}
	return hex.EncodeToString(h.Sum(nil)[:12])
}
