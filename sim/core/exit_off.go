//go:build !exitseam

package core

const ExitSeamAvailable = false

func SetExitHook(f func(code int)) {}
