//go:build !mapseam

package core

const MapSeamAvailable = false

func SetMapSeed(seed uint64) {}
func ClearMapSeed()          {}
