package chainsim

import (
	"bytes"
	"fmt"
	"math/big"
	"sort"

	sdk "github.com/pokt-network/posmint/types"
	posTypes "github.com/pokt-network/posmint/x/pos/types"

	"verifsim/core"
)

// Layer A: model-free invariants evaluated on the application's own state
// after every ABCI call. They do not depend on the reference model.

type InvCtx struct {
	Phase      string // InitChain BeginBlock DeliverTx EndBlock Commit
	TxKind     string
	Step       int
	Height     int64
	PoolGifts  *big.Int // coins users sent to the pool address directly (harness ledger)
	MinStake   int64    // StakeMinimum in force (read from the app's own params)
	MinChanged bool     // the minimum-stake parameter changed during the run
	Window     int64
	// Prev remembers, per persisting condition, the value last reported: a broken invariant is
	// reported when it breaks or when it changes, not again in every later phase.
	Prev map[string]string
}

func viol(prop, oracle string, step int, attrs map[string]string, format string, args ...interface{}) core.Violation {
	return core.Violation{Property: prop, Oracle: oracle, Attrs: attrs, Step: step, Detail: fmt.Sprintf(format, args...)}
}

func CheckInvariants(a *App, st *AppState, c InvCtx) []core.Violation {
	var out []core.Violation
	live := map[string]bool{}
	// rep keeps v only if the condition `key` is new or its `value` changed since last reported
	rep := func(key, value string, v core.Violation) {
		live[key] = true
		if c.Prev != nil {
			if old, ok := c.Prev[key]; ok && old == value {
				return
			}
			c.Prev[key] = value
		}
		out = append(out, v)
	}
	ph := map[string]string{"phase": c.Phase}
	if c.TxKind != "" {
		ph["tx"] = c.TxKind
	}
	// ---- C02: supply = sum of balances, nothing negative
	if !st.SupplyOK {
		rep("C02/supply-missing", "", viol("C02", "supply-record-missing", c.Step, ph, "no supply record in the auth store"))
	} else {
		sum := new(big.Int)
		for _, b := range st.Balances {
			sum.Add(sum, b)
		}
		if sum.Cmp(st.Supply) != 0 {
			d := new(big.Int).Sub(sum, st.Supply)
			rep("C02/supply", d.String(), viol("C02", "supply-equals-balances", c.Step, ph,
				"sum of all balances %s != recorded supply %s (diff %s)", sum, st.Supply, d))
		}
	}
	if st.SupplyOK {
		dsum := new(big.Int)
		for _, b := range st.Dust {
			dsum.Add(dsum, b)
		}
		if dsum.Cmp(st.SupplyDust) != 0 {
			d := new(big.Int).Sub(dsum, st.SupplyDust)
			rep("C02/supply-dust", d.String(), viol("C02", "supply-equals-balances", c.Step, map[string]string{"phase": c.Phase, "denom": "second"},
				"sum of all balances in the second denomination %s != recorded supply %s", dsum, st.SupplyDust))
		}
	}
	if st.SupplyOK {
		denoms := map[string]bool{}
		for d := range st.Other {
			denoms[d] = true
		}
		for d := range st.SupplyOther {
			denoms[d] = true
		}
		ds := make([]string, 0, len(denoms))
		for d := range denoms {
			ds = append(ds, d)
		}
		sort.Strings(ds)
		for _, d := range ds {
			sum := new(big.Int)
			for _, b := range st.Other[d] {
				sum.Add(sum, b)
			}
			sup := st.SupplyOther[d]
			if sup == nil {
				sup = new(big.Int)
			}
			if sum.Cmp(sup) != 0 {
				rep("C02/supply-other/"+d, new(big.Int).Sub(sum, sup).String(), viol("C02", "supply-equals-balances", c.Step, map[string]string{"phase": c.Phase, "denom": "other"},
					"sum of all balances in denomination %q is %s, recorded supply %s", d, sum, sup))
			}
		}
	}
	if len(st.Negative) > 0 {
		rep("C02/neg", fmt.Sprint(st.Negative), viol("C02", "negative-balance", c.Step, ph, "negative balance at %v", st.Negative))
	}
	if st.Supply != nil && st.Supply.Sign() < 0 {
		rep("C02/negsupply", st.Supply.String(), viol("C02", "negative-balance", c.Step, ph, "negative supply %s", st.Supply))
	}
	// ---- C04: pool = sum of stake of staked/unstaking validators (+ gifts)
	pool := st.Balances[moduleAddrHex(posTypes.StakedPoolName)]
	if pool == nil {
		pool = new(big.Int)
	}
	sumStake := new(big.Int)
	for _, v := range st.Vals {
		if v.Status != sdk.Unstaked {
			sumStake.Add(sumStake, v.StakedTokens.BigInt())
		}
	}
	want := new(big.Int).Add(sumStake, c.PoolGifts)
	if pool.Cmp(want) != 0 {
		d := new(big.Int).Sub(pool, want)
		rep("C04/pool", d.String(), viol("C04", "pool-backing", c.Step, ph,
			"staked pool holds %s but staked+unstaking validators record %s (+%s sent directly): diff %s", pool, sumStake, c.PoolGifts, d))
	}
	// ---- C06: power index <-> staked & unjailed, keyed by current stake
	idx := map[string][]byte{} // addr hex -> key
	for _, kv := range st.PowerIdx {
		ah := hx(kv.V)
		if _, dup := idx[ah]; dup {
			rep("C06/idx-dup/"+ah, "", viol("C06", "power-index", c.Step, map[string]string{"phase": c.Phase, "what": "duplicate-entry"},
				"validator %s has two power-index entries", ah))
		}
		idx[ah] = kv.K
	}
	addrs := make([]string, 0, len(st.Vals))
	for ah := range st.Vals {
		addrs = append(addrs, ah)
	}
	sort.Strings(addrs)
	for _, ah := range addrs {
		v := st.Vals[ah]
		key, in := idx[ah]
		should := v.Status == sdk.Staked && !v.Jailed
		switch {
		case should && !in:
			rep("C06/idx-missing/"+ah, "", viol("C06", "power-index", c.Step, map[string]string{"phase": c.Phase, "what": "missing-entry"},
				"staked unjailed validator %s (stake %s) has no power-index entry", ah, v.StakedTokens))
		case !should && in:
			rep("C06/idx-stale/"+ah, "", viol("C06", "power-index", c.Step, map[string]string{"phase": c.Phase, "what": "stale-entry", "status": v.Status.String(), "jailed": fmt.Sprint(v.Jailed)},
				"validator %s (status %s, jailed %v) is listed in the power index", ah, v.Status, v.Jailed))
		case should && in:
			if !bytes.Equal(key, posTypes.KeyForValidatorInStakingSet(v)) {
				rep("C06/idx-key/"+ah, hx(key), viol("C06", "power-index", c.Step, map[string]string{"phase": c.Phase, "what": "wrong-key"},
					"validator %s is indexed under a key that does not match its stake %s", ah, v.StakedTokens))
			}
		}
		delete(idx, ah)
		if v.Status != sdk.Unstaked && !c.MinChanged && v.StakedTokens.LT(sdk.NewInt(c.MinStake)) {
			rep("C06/min/"+ah, v.StakedTokens.String(), viol("C06", "minimum-stake", c.Step, map[string]string{"phase": c.Phase, "status": v.Status.String()},
				"validator %s is %s with stake %s below the minimum %d", ah, v.Status, v.StakedTokens, c.MinStake))
		}
	}
	left := make([]string, 0, len(idx))
	for ah := range idx {
		left = append(left, ah)
	}
	sort.Strings(left)
	for _, ah := range left {
		rep("C06/idx-orphan/"+ah, "", viol("C06", "power-index", c.Step, map[string]string{"phase": c.Phase, "what": "entry-without-record"},
			"power index lists %s which has no validator record", ah))
	}
	// unstaking queue
	queued := map[string]string{} // addr -> time key
	for _, kv := range st.UnstakeQ {
		ads, _ := a.decodeQueue(kv.V)
		for _, ad := range ads {
			queued[hx(ad)] = string(kv.K)
		}
	}
	// an unstaking validator is queued exactly once, under its completion time: a second entry (a stale
	// slot, a duplicate) would release it at another time or twice
	entries := map[string][]string{}
	for _, kv := range st.UnstakeQ {
		ads, _ := a.decodeQueue(kv.V)
		for _, ad := range ads {
			entries[hx(ad)] = append(entries[hx(ad)], string(kv.K))
		}
	}
	// (if the queue is stored in a form this harness does not know, what it holds cannot be said: the queue
	// invariants are skipped, the payout-on-time oracles on validator records and balances still apply)
	if !st.QueueOpaque {
		// ... and nobody else is queued: an entry for a validator that is not unstaking (any more) would release
		// it, or whoever re-uses the address, at a time nobody asked for
		qaddrs := make([]string, 0, len(entries))
		for ah := range entries {
			qaddrs = append(qaddrs, ah)
		}
		sort.Strings(qaddrs)
		for _, ah := range qaddrs {
			v, ok := st.Vals[ah]
			if !ok || v.Status != sdk.Unstaking {
				status := "no-record"
				if ok {
					status = v.Status.String()
				}
				rep("C06/q-stale/"+ah, status, viol("C06", "unstaking-queue", c.Step, map[string]string{"phase": c.Phase, "what": "entry-not-unstaking", "status": status},
					"the unstaking queue lists %s, which is not an unstaking validator (%s)", ah, status))
			}
		}
		for _, ah := range addrs {
			v := st.Vals[ah]
			if v.Status == sdk.Unstaking && len(entries[ah]) > 1 {
				rep("C06/q-multi/"+ah, fmt.Sprint(len(entries[ah])), viol("C06", "unstaking-queue", c.Step, map[string]string{"phase": c.Phase, "what": "queued-more-than-once"},
					"unstaking validator %s has %d entries in the unstaking queue", ah, len(entries[ah])))
			}
		}
		for _, ah := range addrs {
			v := st.Vals[ah]
			if v.Status == sdk.Unstaking {
				k, ok := queued[ah]
				if !ok {
					rep("C06/q-missing/"+ah, "", viol("C06", "unstaking-queue", c.Step, map[string]string{"phase": c.Phase, "what": "not-queued"},
						"unstaking validator %s is not in the unstaking queue", ah))
				} else if k != string(posTypes.KeyForUnstakingValidators(v.UnstakingCompletionTime)) {
					rep("C06/q-time/"+ah, "", viol("C06", "unstaking-queue", c.Step, map[string]string{"phase": c.Phase, "what": "wrong-time"},
						"unstaking validator %s is queued under a time other than its completion time %s", ah, v.UnstakingCompletionTime))
				}
			}
		}
	}
	// ---- C08: counter = popcount(window), no index beyond the window
	saddrs := make([]string, 0, len(st.Sign))
	for ah := range st.Sign {
		saddrs = append(saddrs, ah)
	}
	sort.Strings(saddrs)
	for _, ah := range saddrs {
		si := st.Sign[ah]
		cnt := int64(0)
		maxIdx := int64(-1)
		for i, m := range st.Missed[ah] {
			if m {
				cnt++
			}
			if i > maxIdx {
				maxIdx = i
			}
		}
		if c.Window > 0 && maxIdx >= c.Window {
			rep("C08/idx/"+ah, fmt.Sprint(maxIdx), viol("C08", "window-index", c.Step, ph, "validator %s has a missed-block entry at index %d >= window %d", ah, maxIdx, c.Window))
		}
		if cnt != si.MissedBlocksCounter {
			rep("C08/cnt/"+ah, fmt.Sprint(cnt-si.MissedBlocksCounter), viol("C08", "counter-equals-window", c.Step, ph,
				"validator %s: missed-blocks counter %d but %d missed entries in its window", ah, si.MissedBlocksCounter, cnt))
		}
	}
	// ---- C10: award queue drained by BeginBlock, fee collector emptied
	if c.Phase == "BeginBlock" {
		if st.AwardCount != 0 {
			out = append(out, viol("C10", "award-queue-drained", c.Step, ph, "%d award entries remain after BeginBlock", st.AwardCount))
		}
		if fc := st.Balances[moduleAddrHex("fee_collector")]; c.Height > 1 && fc != nil && fc.Sign() != 0 {
			out = append(out, viol("C10", "fee-collector-emptied", c.Step, ph, "fee collector still holds %s after BeginBlock", fc))
		}
	}
	// ---- C12: transient stores empty after commit
	if c.Phase == "Commit" && st.TransientLen != 0 {
		out = append(out, viol("C12", "transient-empty-after-commit", c.Step, ph, "transient store holds %d keys after Commit", st.TransientLen))
	}
	// conditions that no longer hold are forgotten
	if c.Prev != nil {
		for k := range c.Prev {
			if !live[k] {
				delete(c.Prev, k)
			}
		}
	}
	return out
}
