package chainsim

import (
	"encoding/json"
)

// Trace is the complete, explicit description of one simulated run. It is a
// pure function of the seed (Generate) and is all Execute needs: any sub-list
// of blocks / txs / faults is still a well-formed trace, which is what makes
// shrinking possible. Entities are named by index; keys are derived from
// (KeySeed, index) at execution time.
type Trace struct {
	Engine   string  `json:"engine"`
	Property string  `json:"property"`
	Mode     string  `json:"mode"`
	Seed     uint64  `json:"seed"`
	KeySeed  uint64  `json:"key_seed"`
	Config   Config  `json:"config"`
	Genesis  Genesis `json:"genesis"`
	Blocks   []Block `json:"blocks"`
}

type Config struct {
	Replicas []ReplicaCfg `json:"replicas"`
	// EnumCrash: execute the trace once per DB write event of the commits listed
	// in CrashBlocks (C13 fault enumeration, chain part) on replica 1.
	EnumCrash   bool  `json:"enum_crash,omitempty"`
	CrashBlocks []int `json:"crash_blocks,omitempty"`
}

type ReplicaCfg struct {
	Pruning Pruning `json:"pruning"`
	MapSeed uint64  `json:"map_seed"`
	// Noise: this replica receives the read-only traffic (CheckTx, simulate, queries).
	Noise bool `json:"noise,omitempty"`
	// Twin: this replica does not receive read-only traffic nor transactions that
	// are rejected before the ante handler completes (C11 twin).
	Twin bool `json:"twin,omitempty"`
	// ClockSkewNs: this replica's wall clock (time.Now) during every ABCI call is the block's time plus this
	// skew; replica 0 always runs on the honest clock. No consensus result may depend on it.
	ClockSkewNs int64 `json:"clock_skew_ns,omitempty"`
}

type GenVal struct {
	Acct   int   `json:"acct"`
	Stake  int64 `json:"stake"`
	// Unstaking validators at genesis (exported state): completion = genesis time + UnstakeIn.
	Unstaking bool  `json:"unstaking,omitempty"`
	UnstakeIn int64 `json:"unstake_in,omitempty"`
}

type GenSigningInfo struct {
	Acct        int   `json:"acct"`
	StartHeight int64 `json:"start_height"`
	IndexOffset int64 `json:"index_offset"`
	Missed      []int `json:"missed,omitempty"` // indices with missed=true
	JailedUntil int64 `json:"jailed_until,omitempty"`
}

type Genesis struct {
	TimeUnix  int64   `json:"time_unix"`
	Balances  []int64 `json:"balances"` // per account index
	// Kilo: accounts whose genesis balance is a thousand times the listed one (amounts beyond 2^63)
	Kilo []int `json:"kilo,omitempty"`
	// Quad: accounts holding four times the listed balance (1.6e19: 64 bits, just below 2^64)
	Quad []int `json:"quad,omitempty"`
	Dust      []int64 `json:"dust,omitempty"` // per account: balance in a second denomination ("dust")
	// Third: per account balance in a third denomination ("aaa", sorts before the others) that nothing ever moves:
	// three-coin balances for the coin-set arithmetic, conservation is checked per denomination
	Third []int64 `json:"third,omitempty"`
	KeyTypes  []string `json:"key_types,omitempty"` // per account: "ed" (default) | "secp"
	// MaxGas > 0 configures a block gas limit (consensus params). The reference model keeps no gas account, so
	// in such runs only the model-free oracles (replica comparison, crash/replay, invariants) apply.
	MaxGas int64 `json:"max_gas,omitempty"`
	// Late: accounts that are not in the genesis file: they come to exist when first credited (their
	// "balance" is sent to them in block 1) and then carry no public key on record
	Late []int `json:"late,omitempty"`
	Validators []GenVal `json:"validators"`
	DAOTokens int64 `json:"dao_tokens"`
	DAOOwner  int   `json:"dao_owner"`
	// ParamOwner owns every parameter in the ACL unless listed in ACLOverride.
	ParamOwner  int            `json:"param_owner"`
	ACLOverride map[string]int `json:"acl_override,omitempty"`
	// Exported-style genesis: signing infos / missed blocks for many addresses.
	Exported     bool             `json:"exported,omitempty"`
	SigningInfos []GenSigningInfo `json:"signing_infos,omitempty"`
	PrevProposer int              `json:"prev_proposer"`
	// Inconsistent: do not declare the supply (auth sums accounts before the pool is filled).
	NoSupply bool `json:"no_supply,omitempty"`
}

type Evidence struct {
	Acct       int   `json:"acct"`        // offender (account index); -1 = address nobody knows
	HeightBack int64 `json:"height_back"` // evidence height = H - HeightBack
	AgeNs      int64 `json:"age_ns"`      // evidence time = block time - AgeNs (may be negative = future)
	Power      int64 `json:"power"`       // -1 = power the offender had in the set of that height
}

type Fault struct {
	Replica int    `json:"replica"`
	Kind    string `json:"kind"` // restart | crash_commit | power_loss | stall
	K       int    `json:"k"`    // crash_commit: write event index within the Commit (mod #events unless Exact); power_loss: events undone; stall: the replica's log sink stalls (simulated time jumps 3 s) at every other line from line K of the block on
	Exact   bool   `json:"exact,omitempty"`
	// IOErr: the fault is an I/O error on that write (it panics, the database keeps working while the panic unwinds
	// and for whatever the application does before the process is gone), not the death of the process at that write
	IOErr bool `json:"io_err,omitempty"`
}

type ReadOnly struct {
	Pos  int    `json:"pos"`  // issued before tx #Pos of the block (len(txs) = after the last)
	Kind string `json:"kind"` // checktx | simulate | query_store | query_custom | query_misc
	Tx   *TxSpec `json:"tx,omitempty"`
	Path string `json:"path,omitempty"`
	Data string `json:"data,omitempty"` // hex
	Height int64 `json:"height,omitempty"`
	Prove bool `json:"prove,omitempty"`
}

type Block struct {
	DtNs     int64      `json:"dt_ns"`
	Proposer int        `json:"proposer"` // account index; -1 = address that is no validator; -2 = member of the current set chosen by ProposerPick
	ProposerPick int    `json:"proposer_pick,omitempty"`
	Absent   []int      `json:"absent,omitempty"` // accounts whose vote for the previous block is missing
	Evidence []Evidence `json:"evidence,omitempty"`
	Txs      []TxSpec   `json:"txs,omitempty"`
	ReadOnly []ReadOnly `json:"read_only,omitempty"`
	Faults   []Fault    `json:"faults,omitempty"` // applied after this block's Commit (crash_commit: during it)
}

// TxSpec describes a transaction logically; bytes are built (and signed) at execution time.
type TxSpec struct {
	Kind   string `json:"kind"` // stake unstake unjail send change_param dao_transfer dao_burn upgrade award burn raw replay
	Acct   int    `json:"acct"` // the account the message names as signer
	To     int    `json:"to,omitempty"`
	Amount string `json:"amount,omitempty"` // decimal integer (may exceed int64) or decimal fraction for burn severity
	Fee    int64  `json:"fee"`              // -1 = exactly the required fee; -2 = empty fee
	FeeDenom string `json:"fee_denom,omitempty"`
	FeeDust  int64  `json:"fee_dust,omitempty"` // additional fee coin in the second denomination
	Memo   string `json:"memo,omitempty"`
	// MemoHex, when set, is the memo as hex (memos that are not valid UTF-8 do not survive a JSON trace file)
	MemoHex string `json:"memo_hex,omitempty"`
	Entropy int64 `json:"entropy"`
	// signing
	SignBy  int    `json:"sign_by"`            // account whose private key signs (== Acct for an honest tx)
	KeySrc  string `json:"key_src,omitempty"`  // "sig" (default): public key travels in the signature; "state": left empty
	KeyKind string `json:"key_kind,omitempty"` // "" = the account's own key; "multi2","multi3","nested" = multisig built from SignBy.. keys
	ChainID string `json:"chain_id,omitempty"` // chain id signed over ("" = the right one)
	Mut     string `json:"mut,omitempty"`      // post-signing mutation: fee memo entropy amount to sigbit pubkey sigtrunc
	// governance
	ParamKey string `json:"param_key,omitempty"`
	ParamVal string `json:"param_val,omitempty"` // JSON text
	UpgradeHeight int64 `json:"upgrade_height,omitempty"`
	UpgradeVersion string `json:"upgrade_version,omitempty"`
	// raw bytes (hex) for garbage; Replay re-submits the bytes of tx (Block,Tx)
	Raw string `json:"raw,omitempty"`
	ReplayBlock int `json:"replay_block,omitempty"`
	ReplayTx    int `json:"replay_tx,omitempty"`
	// RawMut derives garbage from a valid tx: "trunc:N", "flip:N"
	RawMut string `json:"raw_mut,omitempty"`
}

func (t *Trace) Marshal() []byte {
	b, err := json.Marshal(t)
	if err != nil {
		panic(err)
	}
	return b
}

func UnmarshalTrace(b []byte) (*Trace, error) {
	var t Trace
	if err := json.Unmarshal(b, &t); err != nil {
		return nil, err
	}
	return &t, nil
}

func (t *Trace) Clone() *Trace {
	c, err := UnmarshalTrace(t.Marshal())
	if err != nil {
		panic(err)
	}
	return c
}
