package chainsim

import (
	"strings"
	"bytes"
	"crypto/sha256"
	"encoding/binary"
	"encoding/hex"
	"fmt"
	"math/big"
	"sort"
	"time"

	abci "github.com/tendermint/tendermint/abci/types"
	tmlog "github.com/tendermint/tendermint/libs/log"

	sdk "github.com/pokt-network/posmint/types"
	"github.com/pokt-network/posmint/x/auth"
	authexp "github.com/pokt-network/posmint/x/auth/exported"
	authTypes "github.com/pokt-network/posmint/x/auth/types"
	posTypes "github.com/pokt-network/posmint/x/pos/types"
)

type KV struct{ K, V []byte }

// AppState is a decoded raw dump of every mounted store of one replica's
// working state. It is read straight from the root multistore (no check-state
// cache, no gas meter), so observing never perturbs the run.
type AppState struct {
	Raw map[string][]KV // store name -> sorted content

	NonParamKeys int               // keys of the params store outside every registered subspace
	PosSquatted bool               // a plain account at the pos module address (observation O1: the next fee distribution halts)
	Balances   map[string]*big.Int // address hex -> stake-denom balance
	Dust       map[string]*big.Int // address hex -> balance in the second denomination
	SupplyDust *big.Int
	// every other denomination: per denomination the holders and the recorded supply
	Other       map[string]map[string]*big.Int
	SupplyOther map[string]*big.Int
	OtherDenom bool                // some account holds a denomination other than the stake denom
	Negative   []string            // addresses with a negative coin
	AcctErr    []string            // undecodable account records
	HasKey     map[string]bool     // address hex -> the account record carries a public key
	Supply     *big.Int
	SupplyOK   bool

	Vals      map[string]posTypes.Validator
	Sign      map[string]posTypes.ValidatorSigningInfo
	Missed    map[string]map[int64]bool
	PowerIdx  []KV // raw entries of prefix 0x23 (value = address)
	UnstakeQ  []KV // raw entries of prefix 0x41
	Awards    map[string]*big.Int
	Burns     map[string]string
	PrevPower map[string]int64
	Params    map[string]string // "<subspace>/<key>" -> raw JSON
	TransientLen int
	// auxiliary records (missed-block ring, previous-state powers, award/burn queue values, unstaking-queue values)
	// are read leniently: if their stored form is not the one this harness knows, the keeper's exported readers are
	// used where they exist, and otherwise the record is "opaque": oracles that need its content are skipped
	// (counted), oracles that only need its presence still apply. Accounts, supply, validator records and signing
	// infos are the formats clients depend on: those failing to decode is reported.
	MissedOpaque, PrevOpaque, AwardsOpaque, BurnsOpaque, QueueOpaque bool
	AwardCount, BurnCount int
}

var storeNames = []string{"main", "auth", "pos", "params"}

func (a *App) dumpStore(name string) []KV {
	var key sdk.StoreKey
	switch name {
	case "params":
		key = sdk.ParamsKey
	case "transient_params":
		key = sdk.ParamsTKey
	default:
		key = a.Keys[name]
	}
	st := a.Store().GetKVStore(key)
	it := st.Iterator(nil, nil)
	defer it.Close()
	var out []KV
	for ; it.Valid(); it.Next() {
		out = append(out, KV{append([]byte{}, it.Key()...), append([]byte{}, it.Value()...)})
	}
	return out
}

// DumpAll returns the raw content of all stores including the transient one.
func (a *App) DumpAll() map[string][]KV {
	m := map[string][]KV{}
	for _, n := range storeNames {
		m[n] = a.dumpStore(n)
	}
	m["transient_params"] = a.dumpStore("transient_params")
	return m
}

func DumpDigest(m map[string][]KV) string {
	h := sha256.New()
	names := make([]string, 0, len(m))
	for n := range m {
		names = append(names, n)
	}
	sort.Strings(names)
	var lb [8]byte
	for _, n := range names {
		h.Write([]byte(n))
		for _, kv := range m[n] {
			binary.BigEndian.PutUint64(lb[:], uint64(len(kv.K)))
			h.Write(lb[:])
			h.Write(kv.K)
			binary.BigEndian.PutUint64(lb[:], uint64(len(kv.V)))
			h.Write(lb[:])
			h.Write(kv.V)
		}
	}
	return hex.EncodeToString(h.Sum(nil)[:12])
}

// DiffDumps lists the keys that differ between two dumps (store:hexkey).
func DiffDumps(a, b map[string][]KV) []string {
	var out []string
	for _, n := range append(append([]string{}, storeNames...), "transient_params") {
		ma := map[string][]byte{}
		for _, kv := range a[n] {
			ma[string(kv.K)] = kv.V
		}
		mb := map[string][]byte{}
		for _, kv := range b[n] {
			mb[string(kv.K)] = kv.V
		}
		for k, v := range ma {
			if w, ok := mb[k]; !ok || !bytes.Equal(v, w) {
				out = append(out, n+":"+hex.EncodeToString([]byte(k)))
			}
		}
		for k := range mb {
			if _, ok := ma[k]; !ok {
				out = append(out, n+":"+hex.EncodeToString([]byte(k)))
			}
		}
	}
	sort.Strings(out)
	return out
}

func hx(b []byte) string { return hex.EncodeToString(b) }

// Snapshot dumps and decodes the working state.
func (a *App) Snapshot() (st *AppState, err error) {
	defer func() {
		if r := recover(); r != nil {
			err = fmt.Errorf("snapshot panic: %v", r)
		}
	}()
	st = &AppState{Raw: a.DumpAll(), Other: map[string]map[string]*big.Int{}, SupplyOther: map[string]*big.Int{}, HasKey: map[string]bool{}, Dust: map[string]*big.Int{}, SupplyDust: new(big.Int), Balances: map[string]*big.Int{}, Vals: map[string]posTypes.Validator{},
		Sign: map[string]posTypes.ValidatorSigningInfo{}, Missed: map[string]map[int64]bool{},
		Awards: map[string]*big.Int{}, Burns: map[string]string{}, PrevPower: map[string]int64{}, Params: map[string]string{}}
	st.TransientLen = len(st.Raw["transient_params"])
	for _, kv := range st.Raw["auth"] {
		switch {
		case bytes.Equal(kv.K, authTypes.SupplyKeyPrefix):
			var sup authexp.SupplyI
			if e := a.Cdc.UnmarshalBinaryLengthPrefixed(kv.V, &sup); e == nil && sup != nil {
				st.SupplyOK = true
				st.Supply = new(big.Int).Set(sup.GetTotal().AmountOf(sdk.DefaultStakeDenom).BigInt())
				for _, c := range sup.GetTotal() {
					if c.Denom == DustDenom {
						st.SupplyDust = new(big.Int).Set(c.Amount.BigInt())
					} else if c.Denom != sdk.DefaultStakeDenom {
						st.OtherDenom = true
						st.SupplyOther[c.Denom] = new(big.Int).Set(c.Amount.BigInt())
					}
				}
			}
		case len(kv.K) > 0 && kv.K[0] == authTypes.AddressStoreKeyPrefix[0]:
			var acc auth.Account
			if e := a.Cdc.UnmarshalBinaryBare(kv.V, &acc); e != nil || acc == nil {
				st.AcctErr = append(st.AcctErr, hx(kv.K[1:]))
				continue
			}
			addr := hx(kv.K[1:])
			if _, isModule := acc.(authexp.ModuleAccountI); !isModule && addr == moduleAddrHex(posTypes.ModuleName) {
				st.PosSquatted = true // observation O1: a plain account sits where the pos module account belongs
			}
			if pk := acc.GetPubKey(); pk != nil {
				st.HasKey[addr] = true
			}
			amt := new(big.Int)
			for _, c := range acc.GetCoins() {
				if c.Denom == sdk.DefaultStakeDenom {
					amt.Set(c.Amount.BigInt())
				} else if c.Denom == DustDenom {
					st.Dust[addr] = new(big.Int).Set(c.Amount.BigInt())
				} else {
					st.OtherDenom = true
					if st.Other[c.Denom] == nil {
						st.Other[c.Denom] = map[string]*big.Int{}
					}
					st.Other[c.Denom][addr] = new(big.Int).Set(c.Amount.BigInt())
				}
				if c.Amount.IsNegative() {
					st.Negative = append(st.Negative, addr)
				}
			}
			st.Balances[addr] = amt
		}
	}
	for _, kv := range st.Raw["pos"] {
		if len(kv.K) == 0 {
			continue
		}
		switch kv.K[0] {
		case posTypes.AllValidatorsKey[0]:
			v, e := posTypes.UnmarshalValidator(a.Cdc, kv.V)
			if e != nil {
				return nil, fmt.Errorf("validator record undecodable: %v", e)
			}
			st.Vals[hx(kv.K[1:])] = v
		case posTypes.ValidatorSigningInfoKey[0]:
			var si posTypes.ValidatorSigningInfo
			a.Cdc.MustUnmarshalBinaryLengthPrefixed(kv.V, &si)
			st.Sign[hx(kv.K[1:])] = si
		case posTypes.ValidatorMissedBlockBitArrayKey[0]:
			if len(kv.K) < 1+sdk.AddrLen+8 {
				continue
			}
			addr := hx(kv.K[1 : 1+sdk.AddrLen])
			idx := int64(binary.LittleEndian.Uint64(kv.K[1+sdk.AddrLen:]))
			var missed bool
			if e := a.Cdc.UnmarshalBinaryLengthPrefixed(kv.V, &missed); e != nil {
				st.MissedOpaque = true
				continue
			}
			if st.Missed[addr] == nil {
				st.Missed[addr] = map[int64]bool{}
			}
			st.Missed[addr][idx] = missed
		case posTypes.StakedValidatorsKey[0]:
			st.PowerIdx = append(st.PowerIdx, kv)
		case posTypes.UnstakingValidatorsKey[0]:
			st.UnstakeQ = append(st.UnstakeQ, kv)
		case posTypes.AwardValidatorKey[0]:
			st.AwardCount++
			var amt sdk.Int
			if e := safely(func() error { return a.Cdc.UnmarshalBinaryBare(kv.V, &amt) }); e != nil {
				st.AwardsOpaque = true
				continue
			}
			st.Awards[hx(kv.K[1:])] = amt.BigInt()
		case posTypes.BurnValidatorKey[0]:
			st.BurnCount++
			var d sdk.Dec
			if e := safely(func() error { return a.Cdc.UnmarshalBinaryBare(kv.V, &d) }); e != nil {
				st.BurnsOpaque = true
				continue
			}
			st.Burns[hx(kv.K[1:])] = d.String()
		case posTypes.PrevStateValidatorsPowerKey[0]:
			var p int64
			if e := safely(func() error { return a.Cdc.UnmarshalBinaryLengthPrefixed(kv.V, &p) }); e != nil {
				st.PrevOpaque = true
				continue
			}
			st.PrevPower[hx(kv.K[1:])] = p
		}
	}
	for _, kv := range st.Raw["params"] {
		// a parameter is a key of a registered subspace ("<subspace>/<name>"); anything else the application keeps in
		// that store (a journal, a marker) is not a parameter and C17 says nothing about it
		k := string(kv.K)
		if strings.HasPrefix(k, "auth/") || strings.HasPrefix(k, "pos/") || strings.HasPrefix(k, "gov/") {
			st.Params[k] = string(kv.V)
		} else {
			st.NonParamKeys++
		}
	}
	qKeyLen := len(posTypes.KeyForUnstakingValidators(time.Unix(0, 0)))
	for _, kv := range st.UnstakeQ {
		if _, ok := a.decodeQueue(kv.V); !ok || len(kv.K) != qKeyLen {
			st.QueueOpaque = true
		}
	}
	if st.MissedOpaque || st.PrevOpaque {
		a.readThroughKeeper(st)
	}
	return st, nil
}

func safely(f func() error) (err error) {
	defer func() {
		if r := recover(); r != nil {
			err = fmt.Errorf("panic: %v", r)
		}
	}()
	return f()
}

// readThroughKeeper fills the missed-block rings and the previous-state powers through the pos keeper's exported
// readers (on a throw-away context over the root multistore: reads only).
func (a *App) readThroughKeeper(st *AppState) {
	ctx := sdk.NewContext(a.Store(), abci.Header{}, false, tmlog.NewNopLogger())
	_ = safely(func() error {
		if st.MissedOpaque {
			st.Missed = map[string]map[int64]bool{}
			for ah, si := range st.Sign {
				m := map[int64]bool{}
				a.PK.IterateAndExecuteOverMissedArray(ctx, si.Address, func(i int64, missed bool) bool {
					if missed {
						m[i] = true
					}
					return false
				})
				st.Missed[ah] = m
			}
		}
		if st.PrevOpaque {
			st.PrevPower = map[string]int64{}
			for _, kv := range st.Raw["pos"] {
				if len(kv.K) == 1+sdk.AddrLen && kv.K[0] == posTypes.PrevStateValidatorsPowerKey[0] {
					st.PrevPower[hx(kv.K[1:])] = a.PK.PrevStateValidatorPower(ctx, sdk.Address(kv.K[1:]))
				}
			}
		}
		return nil
	})
}

func moduleAddrHex(name string) string { return hx(authTypes.NewModuleAddress(name)) }

// UnstakeQueueAddrs decodes a queue entry into its address list.
func (a *App) decodeQueue(v []byte) ([]sdk.Address, bool) {
	var addrs []sdk.Address
	if e := safely(func() error { return a.Cdc.UnmarshalBinaryLengthPrefixed(v, &addrs) }); e != nil {
		return nil, false
	}
	return addrs, true
}
