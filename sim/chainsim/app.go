// Package chainsim runs the whole posmint application (baseapp + auth + pos +
// gov) under a simulated Tendermint: the simulator issues every ABCI call,
// owns the block clock, the validator set, votes, evidence, the tx index and
// the disk.
package chainsim

import (
	"encoding/json"
	"fmt"

	abci "github.com/tendermint/tendermint/abci/types"
	tmcfg "github.com/tendermint/tendermint/config"
	"github.com/tendermint/tendermint/libs/log"
	"github.com/tendermint/tendermint/node"

	"github.com/pokt-network/posmint/baseapp"
	"github.com/pokt-network/posmint/codec"
	storeTypes "github.com/pokt-network/posmint/store/types"
	sdk "github.com/pokt-network/posmint/types"
	"github.com/pokt-network/posmint/types/module"
	"github.com/pokt-network/posmint/x/auth"
	"github.com/pokt-network/posmint/x/gov"
	govKeeper "github.com/pokt-network/posmint/x/gov/keeper"
	govTypes "github.com/pokt-network/posmint/x/gov/types"
	"github.com/pokt-network/posmint/x/pos"
	posKeeper "github.com/pokt-network/posmint/x/pos/keeper"
	posTypes "github.com/pokt-network/posmint/x/pos/types"

	"verifsim/simdb"
)

const (
	ChainID    = "simchain"
	AppVersion = "0.0.1"
)

// Fees of the bundled messages: the embedding application must set PosFeeMap.
var posFees = map[string]int64{
	"stake_validator":           10000,
	"begin_unstaking_validator": 10000,
	"unjail":                    10000,
	"send":                      10000,
}

func init() {
	posTypes.PosFeeMap = posFees
}

// MakeCodec registers everything the harness application decodes.
func MakeCodec() *codec.Codec {
	cdc := codec.New()
	module.NewBasicManager(auth.AppModuleBasic{}, gov.AppModuleBasic{}, pos.AppModuleBasic{}).RegisterCodec(cdc)
	sdk.RegisterCodec(cdc)
	codec.RegisterCrypto(cdc)
	registerSimmodCodec(cdc)
	return cdc
}

var appCdc = MakeCodec()

// App is one replica: the real application over a simulated disk.
type App struct {
	*baseapp.BaseApp
	Cdc  *codec.Codec
	Keys map[string]*sdk.KVStoreKey
	TKeys map[string]*sdk.TransientStoreKey
	AK   auth.Keeper
	PK   posKeeper.Keeper
	GK   govKeeper.Keeper
	MM   *module.Manager
	DB   *simdb.DB
}

// Pruning is (keepRecent, keepEvery).
type Pruning struct {
	KeepRecent int64 `json:"keep_recent"`
	KeepEvery  int64 `json:"keep_every"`
}

func (p Pruning) String() string { return fmt.Sprintf("%d/%d", p.KeepRecent, p.KeepEvery) }

// NewApp builds a fresh set of in-memory objects over db (a restart = NewApp on the same db).
func NewApp(db *simdb.DB, pr Pruning, simNode *node.Node) (app *App, err error) {
	defer func() {
		if r := recover(); r != nil {
			if c, ok := r.(simdb.Crash); ok {
				panic(c)
			}
			err = fmt.Errorf("NewApp panic: %v", r)
		}
	}()
	cdc := appCdc
	bapp := baseapp.NewBaseApp("simapp", simLogger{}, db, auth.DefaultTxDecoder(cdc),
		baseapp.SetPruning(storeTypes.NewPruningOptions(pr.KeepRecent, pr.KeepEvery)))
	bapp.SetAppVersion(AppVersion)
	keys := sdk.NewKVStoreKeys(baseapp.MainStoreKey, auth.StoreKey, posTypes.StoreKey)
	tkeys := sdk.NewTransientStoreKeys()
	app = &App{BaseApp: bapp, Cdc: cdc, Keys: keys, TKeys: tkeys, DB: db}

	authSubspace := sdk.NewSubspace(auth.DefaultParamspace)
	posSubspace := sdk.NewSubspace(posKeeper.DefaultParamspace)
	perms := map[string][]string{
		auth.FeeCollectorName:   nil,
		posTypes.StakedPoolName: {auth.Burner, auth.Minter, auth.Staking},
		posTypes.ModuleName:     nil,
		govTypes.DAOAccountName: {auth.Burner, auth.Minter, auth.Staking},
	}
	app.AK = auth.NewKeeper(cdc, keys[auth.StoreKey], authSubspace, perms)
	app.PK = posKeeper.NewKeeper(cdc, keys[posTypes.StoreKey], app.AK, posSubspace, posTypes.DefaultCodespace)
	app.GK = govKeeper.NewKeeper(cdc, sdk.ParamsKey, sdk.ParamsTKey, govTypes.DefaultCodespace, app.AK, authSubspace, posSubspace)
	app.MM = module.NewManager(
		auth.NewAppModule(app.AK),
		pos.NewAppModule(app.PK, app.AK),
		gov.NewAppModule(app.GK),
		newSimModule(app.PK, keys[posTypes.StoreKey]),
	)
	app.MM.SetOrderInitGenesis(auth.ModuleName, posTypes.ModuleName, govTypes.ModuleName, simmodName)
	app.MM.SetOrderBeginBlockers(auth.ModuleName, posTypes.ModuleName, govTypes.ModuleName, simmodName)
	app.MM.SetOrderEndBlockers(auth.ModuleName, posTypes.ModuleName, govTypes.ModuleName, simmodName)
	app.MM.RegisterRoutes(bapp.Router(), bapp.QueryRouter())
	bapp.SetInitChainer(func(ctx sdk.Ctx, req abci.RequestInitChain) abci.ResponseInitChain {
		var gs map[string]json.RawMessage
		if err := json.Unmarshal(req.AppStateBytes, &gs); err != nil {
			panic(err)
		}
		return app.MM.InitGenesis(ctx, gs)
	})
	bapp.SetBeginBlocker(func(ctx sdk.Ctx, req abci.RequestBeginBlock) abci.ResponseBeginBlock {
		return app.MM.BeginBlock(ctx, req)
	})
	bapp.SetEndBlocker(func(ctx sdk.Ctx, req abci.RequestEndBlock) abci.ResponseEndBlock {
		return app.MM.EndBlock(ctx, req)
	})
	bapp.SetAnteHandler(auth.NewAnteHandler(app.AK))
	bapp.MountKVStores(keys)
	bapp.MountTransientStores(tkeys)
	bapp.SetTendermintNode(simNode)
	if err := bapp.LoadLatestVersion(keys[baseapp.MainStoreKey]); err != nil {
		return nil, err
	}
	return app, nil
}

// NewSimNode is the Tendermint node shell the ante handler asks for its RPC address.
func NewSimNode() *node.Node {
	return node.NewSimNode(tmcfg.DefaultConfig(), nil)
}

// ReadCtx returns a context on the root (working) multistore for oracle reads.
// It does not go through checkState, so observing cannot warm any cache.
func (a *App) ReadCtx(header abci.Header) sdk.Context {
	return sdk.NewContext(a.Store(), header, true, log.NewNopLogger()).WithAppVersion(AppVersion)
}


// simLogger is the application's log sink: it keeps nothing, but every line passes the simulator (a slow or
// stalled sink is one of the places where a node loses time in the middle of a loop).
type simLogger struct{}

// logHook is set by the executor for the duration of one ABCI call of one replica.
var logHook func()

func (simLogger) Debug(msg string, keyvals ...interface{}) { hookLog() }
func (simLogger) Info(msg string, keyvals ...interface{})  { hookLog() }
func (simLogger) Error(msg string, keyvals ...interface{}) { hookLog() }
func (l simLogger) With(keyvals ...interface{}) log.Logger { return l }

func hookLog() {
	if h := logHook; h != nil {
		h()
	}
}
