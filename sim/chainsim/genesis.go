package chainsim

import (
	"math/big"
	"encoding/json"
	"time"

	abci "github.com/tendermint/tendermint/abci/types"
	tmtypes "github.com/tendermint/tendermint/types"

	sdk "github.com/pokt-network/posmint/types"
	authTypes "github.com/pokt-network/posmint/x/auth/types"
	govTypes "github.com/pokt-network/posmint/x/gov/types"
	posTypes "github.com/pokt-network/posmint/x/pos/types"
)

// DustDenom is a second denomination some accounts hold (fees must still be paid in the stake denom).
const DustDenom = "dust"

// ThirdDenom is held by some accounts and never moved.
const ThirdDenom = "aaa"

func isMultiType(t string) bool { return t == "multi2" || t == "multi3" || t == "nested" }

// outside: account i is not part of the genesis file
func (g *Genesis) outside(i int) bool {
	if i < len(g.KeyTypes) && isMultiType(g.KeyTypes[i]) {
		return true
	}
	for _, l := range g.Late {
		if l == i {
			return true
		}
	}
	return false
}

// EffectiveBalance: multisig accounts cannot appear in the genesis file (auth's
// genesis validation refuses keys without a consensus form), so they start empty.
func (g *Genesis) EffectiveDust(i int) int64 {
	if i >= len(g.Dust) || g.outside(i) {
		return 0
	}
	return g.Dust[i]
}

func (g *Genesis) EffectiveBalance(i int) *big.Int {
	if g.outside(i) {
		return new(big.Int)
	}
	return new(big.Int).Mul(big.NewInt(g.Balances[i]), big.NewInt(g.scale(i)))
}

func (g *Genesis) scale(i int) int64 {
	for _, k := range g.Kilo {
		if k == i {
			return 1000
		}
	}
	for _, k := range g.Quad {
		if k == i {
			return 4
		}
	}
	return 1
}

// BuildInitChain renders the trace's genesis into the InitChain request.
func BuildInitChain(kr *Keyring, g *Genesis) abci.RequestInitChain {
	// ---- auth
	var accounts authTypes.Accounts
	total := sdk.ZeroInt()
	dustTotal := sdk.ZeroInt()
	thirdTotal := sdk.ZeroInt()
	for i := range g.Balances {
		if g.outside(i) {
			continue
		}
		a := kr.Get(i)
		coins := sdk.NewCoins()
		if g.Balances[i] > 0 {
			coins = sdk.NewCoins(sdk.NewCoin(sdk.DefaultStakeDenom, sdk.NewInt(g.Balances[i]).MulRaw(g.scale(i))))
		}
		if i < len(g.Dust) && g.Dust[i] > 0 {
			coins = coins.Add(sdk.NewCoins(sdk.NewCoin(DustDenom, sdk.NewInt(g.Dust[i]))))
			dustTotal = dustTotal.Add(sdk.NewInt(g.Dust[i]))
		}
		if i < len(g.Third) && g.Third[i] > 0 {
			coins = coins.Add(sdk.NewCoins(sdk.NewCoin(ThirdDenom, sdk.NewInt(g.Third[i]))))
			thirdTotal = thirdTotal.Add(sdk.NewInt(g.Third[i]))
		}
		accounts = append(accounts, &authTypes.BaseAccount{Address: a.Addr, Coins: coins, PubKey: a.Pub})
		total = total.Add(sdk.NewInt(g.Balances[i]).MulRaw(g.scale(i)))
	}
	// ---- pos
	var vals []posTypes.Validator
	for _, gv := range g.Validators {
		a := kr.Get(gv.Acct)
		v := posTypes.NewValidator(a.Addr, a.Pub, sdk.NewInt(gv.Stake))
		if gv.Unstaking {
			v.Status = sdk.Unstaking
			v.UnstakingCompletionTime = time.Unix(g.TimeUnix, 0).Add(time.Duration(gv.UnstakeIn)).UTC()
		}
		vals = append(vals, v)
		total = total.Add(sdk.NewInt(gv.Stake))
	}
	ag := authTypes.GenesisState{Params: authTypes.DefaultParams(), Accounts: accounts}
	if !g.NoSupply {
		// a consistent genesis declares the supply: liquid balances + staked tokens (the DAO mint adds itself)
		ag.Supply = sdk.NewCoins(sdk.NewCoin(sdk.DefaultStakeDenom, total))
		if dustTotal.IsPositive() {
			ag.Supply = ag.Supply.Add(sdk.NewCoins(sdk.NewCoin(DustDenom, dustTotal)))
		}
		if thirdTotal.IsPositive() {
			ag.Supply = ag.Supply.Add(sdk.NewCoins(sdk.NewCoin(ThirdDenom, thirdTotal)))
		}
	}
	pg := posTypes.GenesisState{
		Params:           posTypes.DefaultParams(),
		Validators:       vals,
		SigningInfos:     map[string]posTypes.ValidatorSigningInfo{},
		MissedBlocks:     map[string][]posTypes.MissedBlock{},
		PreviousProposer: kr.Get(g.PrevProposer).Addr,
	}
	for _, si := range g.SigningInfos {
		a := kr.Get(si.Acct)
		info := posTypes.ValidatorSigningInfo{Address: a.Addr, StartHeight: si.StartHeight, IndexOffset: si.IndexOffset,
			JailedUntil: time.Unix(0, si.JailedUntil).UTC(), MissedBlocksCounter: int64(len(si.Missed))}
		pg.SigningInfos[a.Addr.String()] = info
		var mb []posTypes.MissedBlock
		for _, idx := range si.Missed {
			mb = append(mb, posTypes.MissedBlock{Index: int64(idx), Missed: true})
		}
		pg.MissedBlocks[a.Addr.String()] = mb
	}
	// ---- gov
	var acl govTypes.ACL
	for _, k := range AllParamKeys {
		owner := g.ParamOwner
		if o, ok := g.ACLOverride[k]; ok {
			owner = o
		}
		acl = append(acl, govTypes.ACLPair{Key: k, Addr: kr.Get(owner).Addr})
	}
	gg := govTypes.GenesisState{
		Params:    govTypes.Params{ACL: acl, DAOOwner: kr.Get(g.DAOOwner).Addr, Upgrade: govTypes.NewUpgrade(0, "")},
		DAOTokens: sdk.NewInt(g.DAOTokens),
	}
	state := map[string]json.RawMessage{
		authTypes.ModuleName: authTypes.ModuleCdc.MustMarshalJSON(ag),
		posTypes.ModuleName:  posTypes.ModuleCdc.MustMarshalJSON(pg),
		govTypes.ModuleName:  govTypes.ModuleCdc.MustMarshalJSON(gg),
	}
	bz, err := json.Marshal(state)
	if err != nil {
		panic(err)
	}
	maxGas := int64(-1)
	if g.MaxGas > 0 {
		maxGas = g.MaxGas
	}
	return abci.RequestInitChain{
		Time:    time.Unix(g.TimeUnix, 0).UTC(),
		ChainId: ChainID,
		ConsensusParams: &abci.ConsensusParams{
			Block:     &abci.BlockParams{MaxBytes: 1 << 22, MaxGas: maxGas},
			Evidence:  &abci.EvidenceParams{MaxAge: 100000},
			Validator: &abci.ValidatorParams{PubKeyTypes: []string{tmtypes.ABCIPubKeyTypeEd25519}},
		},
		AppStateBytes: bz,
	}
}
