package chainsim

import (
	"encoding/json"

	abci "github.com/tendermint/tendermint/abci/types"

	"github.com/pokt-network/posmint/codec"
	sdk "github.com/pokt-network/posmint/types"
	"github.com/pokt-network/posmint/types/module"
	posKeeper "github.com/pokt-network/posmint/x/pos/keeper"
	posTypes "github.com/pokt-network/posmint/x/pos/types"
	amino "github.com/tendermint/go-amino"
)

// simmod stands for "the other modules of the embedding application"
// (pocket-core): its two messages call the real Keeper.AwardCoinsTo and
// Keeper.BurnValidator from a message handler, the way pocket-core does.

const simmodName = "simmod"

const simmodFee = 10000

type MsgSimAward struct {
	From   sdk.Address `json:"from"`
	To     sdk.Address `json:"to"`
	Amount sdk.Int     `json:"amount"`
}

func (m MsgSimAward) Route() string          { return simmodName }
func (m MsgSimAward) Type() string           { return "sim_award" }
func (m MsgSimAward) GetSigner() sdk.Address { return m.From }
func (m MsgSimAward) GetFee() sdk.Int        { return sdk.NewInt(simmodFee) }
func (m MsgSimAward) GetSignBytes() []byte {
	return sdk.MustSortJSON(appCdcJSON(m))
}
func (m MsgSimAward) ValidateBasic() sdk.Error {
	if m.From.Empty() || m.To.Empty() {
		return sdk.ErrInvalidAddress("empty address")
	}
	if m.Amount.IsNegative() {
		return sdk.ErrInvalidCoins("award must not be negative")
	}
	return nil
}

type MsgSimBurn struct {
	From     sdk.Address `json:"from"`
	Target   sdk.Address `json:"target"`
	Severity sdk.Dec     `json:"severity"`
}

func (m MsgSimBurn) Route() string          { return simmodName }
func (m MsgSimBurn) Type() string           { return "sim_burn" }
func (m MsgSimBurn) GetSigner() sdk.Address { return m.From }
func (m MsgSimBurn) GetFee() sdk.Int        { return sdk.NewInt(simmodFee) }
func (m MsgSimBurn) GetSignBytes() []byte {
	return sdk.MustSortJSON(appCdcJSON(m))
}
func (m MsgSimBurn) ValidateBasic() sdk.Error {
	if m.From.Empty() || m.Target.Empty() {
		return sdk.ErrInvalidAddress("empty address")
	}
	if m.Severity.IsNil() || m.Severity.IsNegative() {
		return sdk.ErrInvalidCoins("severity must be >= 0")
	}
	return nil
}

var simmodCdc = codec.New()

func init() {
	registerSimmodCodec(simmodCdc)
}

func appCdcJSON(v interface{}) []byte {
	return simmodCdc.MustMarshalJSON(v)
}

func registerSimmodCodec(cdc *codec.Codec) {
	cdc.RegisterConcrete(MsgSimAward{}, "simmod/MsgSimAward", nil)
	cdc.RegisterConcrete(MsgSimBurn{}, "simmod/MsgSimBurn", nil)
}

type simModule struct {
	pk     posKeeper.Keeper
	posKey sdk.StoreKey
}

func newSimModule(pk posKeeper.Keeper, posKey sdk.StoreKey) module.AppModule {
	return simModule{pk: pk, posKey: posKey}
}

func (simModule) Name() string                                    { return simmodName }
func (simModule) RegisterCodec(cdc *codec.Codec)                  { registerSimmodCodec(cdc) }
func (simModule) DefaultGenesis() json.RawMessage                 { return nil }
func (simModule) ValidateGenesis(json.RawMessage) error           { return nil }
func (simModule) RegisterInvariants(sdk.InvariantRegistry)        {}
func (simModule) Route() string                                   { return simmodName }
func (simModule) QuerierRoute() string                            { return "" }
func (simModule) NewQuerierHandler() sdk.Querier                  { return nil }
func (simModule) InitGenesis(sdk.Ctx, json.RawMessage) []abci.ValidatorUpdate { return nil }
func (simModule) ExportGenesis(sdk.Ctx) json.RawMessage           { return nil }
func (simModule) BeginBlock(sdk.Ctx, abci.RequestBeginBlock)      {}
func (simModule) EndBlock(sdk.Ctx, abci.RequestEndBlock) []abci.ValidatorUpdate {
	return []abci.ValidatorUpdate{}
}

func (m simModule) NewHandler() sdk.Handler {
	return func(ctx sdk.Ctx, msg sdk.Msg) sdk.Result {
		switch msg := msg.(type) {
		case MsgSimAward:
			m.pk.AwardCoinsTo(ctx, msg.Amount, msg.To)
			return sdk.Result{}
		case MsgSimBurn:
			// pocket-core only burns validators it has looked up
			if _, found := m.pk.GetValidator(ctx, msg.Target); !found {
				return sdk.ErrUnknownRequest("no such validator").Result()
			}
			// observation O5 (DESIGN.md): Keeper.BurnValidator dereferences a nil Dec when no burn is queued yet
			// for the address, so a first burn can never be queued through it. The first entry is therefore
			// written the way setValidatorBurn writes it; later burns for the same address go through the
			// real BurnValidator (which then adds to the queued severity).
			store := ctx.KVStore(m.posKey)
			if store.Get(posTypes.KeyForValidatorBurn(msg.Target)) == nil {
				store.Set(posTypes.KeyForValidatorBurn(msg.Target), amino.MustMarshalBinaryBare(msg.Severity))
			} else {
				m.pk.BurnValidator(ctx, msg.Target, msg.Severity)
			}
			return sdk.Result{}
		}
		return sdk.ErrUnknownRequest("unrecognized simmod message").Result()
	}
}
