package chainsim

import (
	"os"
	"runtime"
	"bytes"
	"crypto/sha256"
	"encoding/hex"
	"encoding/json"
	"errors"
	"fmt"
	"hash"
	"math/big"
	"regexp"
	"sort"
	"strings"
	"time"

	abci "github.com/tendermint/tendermint/abci/types"
	"github.com/tendermint/tendermint/node"
	rpcclient "github.com/tendermint/tendermint/rpc/client"
	ctypes "github.com/tendermint/tendermint/rpc/core/types"

	"verifsim/core"
	"verifsim/simdb"
)

type replica struct {
	idx     int
	cfg     ReplicaCfg
	db      *simdb.DB
	app     *App
	halted  string
	swallowedIOErr bool // an injected I/O error inside a Commit did not stop the application
	calls   uint64
	lastCommitEvents int
	height  int64
	hash    []byte
	hashes  map[int64][]byte // this replica's own commit hashes
	stallFrom int // stall fault of the current block: log line from which the sink stalls (-1: none)
	logLines  int // log lines of the current block so far
}

type blockRecord struct {
	begin  abci.RequestBeginBlock
	txs    [][]byte
	results []abci.ResponseDeliverTx // replica 0's answers, as the tx index will record them
	preAnte []bool // tx was rejected before the ante handler completed (twin replicas skip it)
	end    abci.RequestEndBlock
	canon  []string // canonical response digests of the block: begin, each tx, end, commit
}

// Exec executes one trace.
type Exec struct {
	tr   *Trace
	kr   *Keyring
	m    *Model
	tm   *TMSet
	reps []*replica
	res  *core.Result
	log  hash.Hash
	simNode *node.Node

	acctOf   map[string]int // address hex -> account index
	times    map[int64]int64
	txBytes  map[[2]int][]byte
	txSpecs  map[[2]int]TxSpec
	exited   *int // set by the exit seam: the application called os.Exit(code) inside the current call
	txIndex  map[string]*abci.ResponseDeliverTx // what Tendermint's tx index answers: the latest result recorded under the hash
	history  []*blockRecord
	initReq  abci.RequestInitChain
	last     *AppState
	step     int
	wallNs    int64 // the honest wall clock: the time of the block being executed
	poolGifts *big.Int
	awardedNow map[string]bool // holders that receive an award in the BeginBlock being checked
	minChanged bool
	windowChangedLate bool
	stopped  bool
	sigSeen  map[string]bool
	pending  []core.Violation
	unknownBal map[string]string
	invPrev  map[string]string
	committed map[int64]map[string]map[string]string // height -> store -> key -> value (committed content)
	prevAbs  string
}

var digitsRe = regexp.MustCompile(`[0-9A-Fa-f]{6,}|[0-9]+`)

func haltCause(r interface{}) string {
	s := fmt.Sprint(r)
	if i := strings.Index(s, "\ngoroutine"); i >= 0 {
		s = s[:i]
	}
	if i := strings.Index(s, "\nstack"); i >= 0 {
		s = s[:i]
	}
	s = strings.Join(strings.Fields(s), " ")
	s = digitsRe.ReplaceAllString(s, "#")
	if len(s) > 110 {
		s = s[:110]
	}
	return s
}

// addViol buffers a violation; flush() orders the buffer so that the result does
// not depend on Go's map iteration order inside the oracles.
func (e *Exec) addViol(v core.Violation) {
	e.pending = append(e.pending, v)
}

func (e *Exec) flush() {
	sort.SliceStable(e.pending, func(i, j int) bool {
		a, b := e.pending[i].Signature(), e.pending[j].Signature()
		if a != b {
			return a < b
		}
		return e.pending[i].Detail < e.pending[j].Detail
	})
	for _, v := range e.pending {
		sig := v.Signature()
		if e.sigSeen[sig] {
			continue
		}
		e.sigSeen[sig] = true
		e.res.Violations = append(e.res.Violations, v)
	}
	e.pending = nil
}

func (e *Exec) addViols(vs []core.Violation) {
	for _, v := range vs {
		e.addViol(v)
	}
}

// call runs one ABCI call into replica r under r's map seed and recovers panics.
func (e *Exec) call(r *replica, fn func()) (pan interface{}) {
	r.calls++
	core.SetMapSeed(core.SplitMix64(r.cfg.MapSeed ^ (r.calls * 0x9E3779B97F4A7C15)))
	core.SetWallClock(e.wallNs + r.cfg.ClockSkewNs + int64(r.calls))
	e.exited = nil
	core.SetExitHook(func(code int) {
		// the code under test ends the process: the simulator notes it and unwinds the call instead
		c := code
		e.exited = &c
		panic(processExit{code})
	})
	if r.stallFrom >= 0 && core.TimerSeamAvailable {
		logHook = func() {
			r.logLines++
			if d := r.logLines - r.stallFrom; d > 0 && d%2 == 1 {
				e.stall()
			}
		}
	}
	defer func() {
		logHook = nil
		core.SetExitHook(nil)
		core.ClearWallClock()
		core.ClearMapSeed()
		if x := recover(); x != nil {
			pan = x
		}
		quiesce()
	}()
	fn()
	return nil
}

// stall: the node loses three seconds here (a stalled log sink). Simulated time jumps, the timers the application
// armed under simulated time and whose deadline is reached fire, and whoever waits on them gets to run before the
// stalled goroutine carries on.
func (e *Exec) stall() {
	fired := core.AdvanceSimClock(3 * time.Second)
	e.res.Stats.C("stall_points", 1)
	if fired > 0 {
		e.res.Stats.C("stall_timers_fired", int64(fired))
		for i := 0; i < 20; i++ {
			for j := 0; j < 100; j++ {
				runtime.Gosched()
			}
			time.Sleep(50 * time.Microsecond)
		}
	}
}

// processExit is what the exit seam panics with when the application calls os.Exit inside an ABCI call.
type processExit struct{ code int }

var baseGoroutines = 0

// quiesce waits until the goroutines an ABCI call left behind have finished. Every IAVL
// iterator runs a producer goroutine that keeps walking the tree (and loading nodes from the
// DB) after the consumer stopped early and called Close; if it is starved until a later Commit
// prunes those nodes it panics ("Value missing for hash"). The simulator does not own that
// schedule, so it lets those goroutines drain between calls (observation O2 in DESIGN.md).
func quiesce() {
	// wait until the number of goroutines is back at the run's baseline, or has stopped falling
	stable, prev := 0, runtime.NumGoroutine()
	for i := 0; i < 50000 && prev > baseGoroutines && stable < 300; i++ {
		runtime.Gosched()
		if n := runtime.NumGoroutine(); n < prev {
			prev, stable = n, 0
		} else {
			stable++
		}
	}
}

func evDigest(evs []abci.Event) string {
	h := sha256.New()
	for _, ev := range evs {
		h.Write([]byte(ev.Type))
		h.Write([]byte{0})
		for _, a := range ev.Attributes {
			h.Write(a.Key)
			h.Write([]byte{1})
			h.Write(a.Value)
			h.Write([]byte{2})
		}
	}
	return hex.EncodeToString(h.Sum(nil)[:8])
}

func updDigest(ups []abci.ValidatorUpdate) string {
	h := sha256.New()
	for _, u := range ups {
		h.Write([]byte(u.PubKey.Type))
		h.Write(u.PubKey.Data)
		fmt.Fprintf(h, "|%d;", u.Power)
	}
	return hex.EncodeToString(h.Sum(nil)[:8])
}

func digestDeliver(r abci.ResponseDeliverTx) string {
	return fmt.Sprintf("tx code=%d cs=%s data=%x ev=%s", r.Code, r.Codespace, r.Data, evDigest(r.Events))
}
func digestBegin(r abci.ResponseBeginBlock) string { return "begin ev=" + evDigest(r.Events) }
func digestEnd(r abci.ResponseEndBlock) string {
	return "end upd=" + updDigest(r.ValidatorUpdates) + " ev=" + evDigest(r.Events)
}
func digestCommit(r abci.ResponseCommit) string { return fmt.Sprintf("commit %x", r.Data) }

func (e *Exec) logf(format string, a ...interface{}) {
	fmt.Fprintf(e.log, format, a...)
	e.log.Write([]byte{'\n'})
}

func diffField(a, b string) string {
	fa, fb := strings.Fields(a), strings.Fields(b)
	if len(fa) > 0 && (fa[0] == "commit" || fa[0] == "info") {
		return "apphash"
	}
	for i := range fa {
		if i >= len(fb) || fa[i] != fb[i] {
			if j := strings.Index(fa[i], "="); j > 0 {
				return fa[i][:j]
			}
			return fa[i]
		}
	}
	return "length"
}

// compareReplica records a C01 (or, for a twin, C11) violation when replica r's response differs.
func (e *Exec) compareReplica(r *replica, callName, want, got string) {
	if want == got {
		return
	}
	prop, oracle := "C01", "replica-divergence"
	if r.cfg.Twin || e.reps[0].cfg.Twin {
		prop, oracle = "C11", "twin-divergence"
	}
	attrs := map[string]string{"call": callName, "field": diffField(want, got)}
	if r.swallowedIOErr {
		// a write of an earlier Commit failed and the application carried on: from there on it has to stay equal to
		// the run that was not disturbed ("the same hash as an uninterrupted run")
		prop, oracle = "C13", "divergence-after-io-error"
		attrs["io_error"] = "swallowed"
	}
	e.addViol(viol(prop, oracle, e.step, attrs, "replica %d (pruning %s, map seed %d, noise %v) answered %s to %s where replica 0 answered %s",
		r.idx, r.cfg.Pruning, r.cfg.MapSeed, r.cfg.Noise, got, callName, want))
}

func (e *Exec) liveReplicas() []*replica {
	var out []*replica
	for _, r := range e.reps {
		if r.halted == "" {
			out = append(out, r)
		}
	}
	return out
}

// Execute is the single deterministic executor used by exploration, shrinking and replay.
func Execute(tr *Trace) (res *core.Result, err error) {
	if tr.Config.EnumCrash {
		return executeEnumCrash(tr)
	}
	return executeOnce(tr)
}

func executeOnce(tr *Trace) (res *core.Result, err error) {
	e := &Exec{tr: tr, res: &core.Result{Stats: core.NewStats()}, log: sha256.New(), acctOf: map[string]int{}, times: map[int64]int64{},
		txBytes: map[[2]int][]byte{}, txSpecs: map[[2]int]TxSpec{}, txIndex: map[string]*abci.ResponseDeliverTx{}, poolGifts: new(big.Int), sigSeen: map[string]bool{}, unknownBal: map[string]string{}, invPrev: map[string]string{}, committed: map[int64]map[string]map[string]string{}}
	defer func() {
		rpcclient.SimTxLookup = nil
		core.ClearMapSeed()
		if r := recover(); r != nil {
			if he, ok := r.(harnessError); ok {
				err = errors.New(string(he))
				return
			}
			panic(r)
		}
	}()
	for i := 0; i < 2000; i++ {
		runtime.Gosched() // let leftovers of an earlier run in this process finish
	}
	baseGoroutines = runtime.NumGoroutine()
	e.kr = NewKeyring(tr.KeySeed, tr.Genesis.KeyTypes)
	for i := range tr.Genesis.Balances {
		e.acctOf[hx(e.kr.Get(i).Addr)] = i
	}
	e.m = NewModel(e.kr, &tr.Genesis)
	if tr.Genesis.MaxGas > 0 {
		e.m.Desync = "a block gas limit is configured (the model keeps no gas account)"
	}
	for i := range tr.Genesis.Balances {
		e.m.Bal[acctKey(i)] = tr.Genesis.EffectiveBalance(i)
	}
	e.m.Supply = new(big.Int)
	for _, b := range e.m.Bal {
		e.m.Supply.Add(e.m.Supply, b)
	}
	e.tm = NewTMSet()
	e.simNode = NewSimNode()
	rpcclient.SimTxLookup = func(hash []byte, prove bool) (*ctypes.ResultTx, error) {
		if r, ok := e.txIndex[hex.EncodeToString(hash)]; ok {
			return &ctypes.ResultTx{Hash: hash, TxResult: *r}, nil
		}
		return nil, errors.New("tx not found")
	}
	if len(tr.Config.Replicas) == 0 {
		tr.Config.Replicas = []ReplicaCfg{{Pruning: Pruning{KeepRecent: 2}}}
	}
	for i, rc := range tr.Config.Replicas {
		db := simdb.New()
		db.Classify = simdb.RootmultiClassifier
		// (under the replica's map seed: the order in which the stores are mounted - a Go map in the application's
		// constructor - decides the order in which Commit saves them, i.e. what a crash at write k leaves behind)
		core.SetMapSeed(core.SplitMix64(rc.MapSeed ^ 0x6e6577617070))
		app, aerr := NewApp(db, rc.Pruning, e.simNode)
		core.ClearMapSeed()
		if aerr != nil {
			return nil, fmt.Errorf("cannot build app: %v", aerr)
		}
		e.reps = append(e.reps, &replica{idx: i, cfg: rc, db: db, app: app, hashes: map[int64][]byte{}})
	}
	e.logf("seed %d replicas %d", tr.Seed, len(e.reps))
	e.runInitChain()
	for bi := range tr.Blocks {
		if e.stopped {
			break
		}
		e.runBlock(bi)
	}
	e.finish()
	return e.res, nil
}

type harnessError string

func (e *Exec) harness(format string, a ...interface{}) {
	panic(harnessError(fmt.Sprintf(format, a...)))
}

func (e *Exec) snapshot0(phase, txKind string) *AppState {
	st, err := e.reps[0].app.Snapshot()
	quiesce()
	if err != nil {
		e.res.Stats.C("blind_runs", 1)
		e.addViol(viol("C11", "state-undecodable", e.step, map[string]string{"phase": phase}, "working state cannot be decoded: %v", err))
		e.stopped = true
		return nil
	}
	e.last = st
	return st
}

func (e *Exec) paramInt(st *AppState, key string, def int64) int64 {
	raw, ok := st.Params[key]
	if !ok {
		return def
	}
	var s string
	if json.Unmarshal([]byte(raw), &s) == nil {
		var v int64
		if _, err := fmt.Sscanf(s, "%d", &v); err == nil {
			return v
		}
	}
	return def
}

func (e *Exec) checkState(st *AppState, phase, txKind string, height int64) {
	if st == nil {
		return
	}
	c := InvCtx{Phase: phase, TxKind: txKind, Step: e.step, Height: height, PoolGifts: e.poolGifts,
		MinStake: e.paramInt(st, "pos/StakeMinimum", 1000000), MinChanged: e.minChanged, Window: e.paramInt(st, "pos/SignedBlocksWindow", 100), Prev: e.invPrev}
	e.addViols(CheckInvariants(e.reps[0].app, st, c))
	e.addViols(e.CompareState(st, phase, txKind, e.step))
	e.flush()
	// abstract state for coverage
	e.res.Stats.State(e.abstractState(st))
}

func (e *Exec) abstractState(st *AppState) string {
	var parts []string
	for _, v := range st.Vals {
		pb := "p0"
		switch p := v.PotentialConsensusPower(); {
		case p >= 100:
			pb = "p100"
		case p >= 10:
			pb = "p10"
		case p >= 2:
			pb = "p2"
		case p == 1:
			pb = "p1"
		}
		parts = append(parts, fmt.Sprintf("%d%v%s", v.Status, v.Jailed, pb))
	}
	sort.Strings(parts)
	s := strings.Join(parts, ",") + fmt.Sprintf("|q%d|a%d|b%d", len(st.UnstakeQ), len(st.Awards), len(st.Burns))
	if e.prevAbs != "" && e.prevAbs != s {
		e.res.Stats.Transition(e.prevAbs + ">" + s)
	}
	e.prevAbs = s
	return s
}

// ---------------------------------------------------------------- InitChain

func (e *Exec) runInitChain() {
	e.step = 0
	e.initReq = BuildInitChain(e.kr, &e.tr.Genesis)
	e.wallNs = e.tr.Genesis.TimeUnix * int64(time.Second)
	var first string
	var firstResp abci.ResponseInitChain
	for i, r := range e.reps {
		var resp abci.ResponseInitChain
		req := e.initReq
		if p := e.call(r, func() { resp = r.app.InitChain(req) }); p != nil {
			r.halted = "InitChain: " + haltCause(p)
			e.res.Stats.Halt(r.halted)
			continue
		}
		d := "init upd=" + updDigest(resp.Validators)
		e.logf("r%d %s", i, d)
		if i == 0 {
			first, firstResp = d, resp
		} else if e.reps[0].halted == "" {
			e.compareReplica(r, "InitChain", first, d)
		}
	}
	if e.reps[0].halted != "" {
		e.stopped = true
		return
	}
	if aerr := e.tm.Init(firstResp.Validators); aerr != nil {
		e.addViol(viol("C05", "updates-applicable", 0, map[string]string{"rule": aerr.Rule, "phase": "InitChain"}, "InitChain validators cannot form a set: %v", aerr))
	}
	e.times[0] = e.tr.Genesis.TimeUnix * 1e9
	st := e.snapshot0("InitChain", "")
	e.checkState(st, "InitChain", "", 0)
	e.checkSet(st, 1, "InitChain")
	e.res.Stats.C("init_chains", 1)
}

// checkSet compares the simulated Tendermint set for height h with the staked set (C05 ii).
func (e *Exec) checkSet(st *AppState, h int64, phase string) {
	if st == nil {
		return
	}
	got := e.tm.At(h)
	gotm := map[string]int64{}
	for _, v := range got {
		gotm[hx(v.Addr)] = v.Power
	}
	// layer A: from the application's own validator records and its own MaxValidators
	maxV := uint64(e.paramInt(st, "pos/MaxValidators", 100000))
	type cand struct {
		addr  string
		power int64
	}
	var cs []cand
	for ah, v := range st.Vals {
		if v.Status == 2 && !v.Jailed && v.PotentialConsensusPower() >= 1 {
			cs = append(cs, cand{ah, v.PotentialConsensusPower()})
		}
	}
	sort.Slice(cs, func(i, j int) bool {
		if cs[i].power != cs[j].power {
			return cs[i].power > cs[j].power
		}
		return cs[i].addr < cs[j].addr
	})
	if uint64(len(cs)) > maxV {
		if maxV > 0 && cs[maxV-1].power == cs[maxV].power {
			e.res.Stats.Probe("cutoff_tie")
		}
		e.res.Stats.Probe("cutoff_active")
		cs = cs[:maxV]
	}
	wantm := map[string]int64{}
	for _, c := range cs {
		wantm[c.addr] = c.power
	}
	if d := diffSets(wantm, gotm); d != "" {
		e.addViol(viol("C05", "set-equals-staked", e.step, map[string]string{"phase": phase, "layer": "app-records"},
			"after %s of height %d Tendermint's set differs from the top-%d staked unjailed validators of the application's own records: %s", phase, h, maxV, d))
	}
	// layer B: from the reference model
	if e.m.Desync == "" {
		wm := map[string]int64{}
		for _, s := range e.m.ExpectedSet() {
			wm[hx(s.Addr)] = s.Power
		}
		if d := diffSets(wm, gotm); d != "" {
			e.addViol(viol("C05", "set-equals-staked", e.step, map[string]string{"phase": phase, "layer": "model"},
				"after %s of height %d Tendermint's set differs from the reference model's staked set: %s", phase, h, d))
		}
	}
	// C09 (model-free): a tombstoned validator never holds power again
	for ah, si := range st.Sign {
		if si.Tombstoned {
			if p, ok := gotm[ah]; ok && p > 0 {
				e.addViol(viol("C09", "tombstoned-has-no-power", e.step, map[string]string{"phase": phase},
					"tombstoned validator %s has power %d in the set that results from %s of height %d", ah, p, phase, h))
			}
		}
	}
	// C09 (model-free): no jailed validator holds power
	for ah, v := range st.Vals {
		if v.Jailed {
			if p, ok := gotm[ah]; ok && p > 0 {
				e.addViol(viol("C09", "jailed-has-no-power", e.step, map[string]string{"phase": phase},
					"jailed validator %s has power %d in the set that results from %s of height %d", ah, p, phase, h))
			}
		}
	}
}

func diffSets(want, got map[string]int64) string {
	var d []string
	for a, p := range want {
		if g, ok := got[a]; !ok {
			d = append(d, fmt.Sprintf("%s missing (want power %d)", a[:8], p))
		} else if g != p {
			d = append(d, fmt.Sprintf("%s power %d (want %d)", a[:8], g, p))
		}
	}
	for a, g := range got {
		if _, ok := want[a]; !ok {
			d = append(d, fmt.Sprintf("%s present with power %d (not wanted)", a[:8], g))
		}
	}
	sort.Strings(d)
	return strings.Join(d, "; ")
}

// ---------------------------------------------------------------- one block

func (e *Exec) proposerOf(b *Block, h int64) (addr []byte, acct int) {
	switch {
	case b.Proposer >= 0:
		return e.kr.Get(b.Proposer).Addr, b.Proposer
	case b.Proposer == -2:
		set := e.tm.Sorted(h)
		if len(set) > 0 {
			pick := b.ProposerPick % len(set)
			if pick < 0 {
				pick = -pick
			}
			v := set[pick]
			if a, ok := e.acctOf[hx(v.Addr)]; ok {
				return v.Addr, a
			}
			return v.Addr, -1
		}
	}
	return e.kr.Get(-7).Addr, -1
}

func (e *Exec) runBlock(bi int) {
	b := &e.tr.Blocks[bi]
	h := int64(bi) + 1
	t := e.times[h-1] + b.DtNs
	if b.DtNs < 0 {
		t = e.times[h-1]
	}
	e.times[h] = t
	e.wallNs = t
	e.res.Stats.SimNanos += t - e.times[h-1]
	e.step = (bi + 1) * 1000
	rec := &blockRecord{}
	e.history = append(e.history, rec)
	for _, r := range e.reps {
		r.stallFrom, r.logLines = -1, 0
	}
	for _, f := range b.Faults {
		if f.Kind == "stall" && f.Replica > 0 && f.Replica < len(e.reps) {
			e.reps[f.Replica].stallFrom = f.K
			e.res.Stats.Fault("stall")
		}
	}

	// ---- BeginBlock request
	propAddr, propAcct := e.proposerOf(b, h)
	absent := map[int]bool{}
	for _, a := range b.Absent {
		absent[a] = true
	}
	var votes []abci.VoteInfo
	var mvotes []Vote
	if h >= 2 {
		for _, v := range e.tm.Sorted(h - 1) {
			acct, ok := e.acctOf[hx(v.Addr)]
			signed := !(ok && absent[acct])
			votes = append(votes, abci.VoteInfo{Validator: abci.Validator{Address: v.Addr, Power: v.Power}, SignedLastBlock: signed})
			if ok {
				mvotes = append(mvotes, Vote{Acct: acct, Power: v.Power, Signed: signed})
			}
			if !signed {
				e.res.Stats.C("votes_missed", 1)
			}
			e.res.Stats.C("votes", 1)
		}
	}
	var evs []abci.Evidence
	var mevs []EvidenceIn
	for _, ev := range b.Evidence {
		eh := h - ev.HeightBack
		if eh < 1 {
			eh = 1
		}
		addr := e.kr.Get(ev.Acct).Addr
		pw := ev.Power
		if pw < 0 {
			if p, ok := e.tm.PowerOf(eh, addr); ok {
				pw = p
			} else if mv, ok := e.m.Vals[ev.Acct]; ok {
				pw = mv.Power()
			} else {
				pw = 1
			}
		}
		et := t - ev.AgeNs
		evs = append(evs, abci.Evidence{Type: "duplicate/vote", Validator: abci.Validator{Address: addr, Power: pw}, Height: eh, Time: time.Unix(0, et).UTC(), TotalVotingPower: 100})
		ma := ev.Acct
		if _, known := e.acctOf[hx(addr)]; !known {
			ma = -1
		}
		mevs = append(mevs, EvidenceIn{Acct: ma, Height: eh, Time: et, Power: pw})
		e.res.Stats.Fault("evidence")
	}
	rec.begin = abci.RequestBeginBlock{
		Header:              abci.Header{ChainID: ChainID, Height: h, Time: time.Unix(0, t).UTC(), ProposerAddress: propAddr},
		LastCommitInfo:      abci.LastCommitInfo{Votes: votes},
		ByzantineValidators: evs,
	}
	rec.end = abci.RequestEndBlock{Height: h}

	// model first (a pure function of the trace), then the replicas
	var exp *BBExpect
	preBB := e.last
	if e.m.Desync == "" {
		exp = e.m.BeginBlock(h, t, propAcct, mvotes, mevs)
		e.awardedNow = map[string]bool{}
		if exp != nil {
			for a := range exp.AwardsMinted {
				e.awardedNow[acctKey(a)] = true
			}
		}
		if exp != nil && exp.ExpectHalt == "" && preBB != nil && preBB.PosSquatted {
			// observation O1 (no listed property): the chain halts at the next fee distribution; nothing this block owes is blamed
			exp.ExpectHalt = "pos-module-address-squatted"
		}
		if exp != nil && exp.ExpectHalt == "" {
			if a, ok := exp.AwardsMinted[AcctPool]; ok {
				// an award to the staked pool's own address stays there without being anybody's stake
				e.poolGifts.Add(e.poolGifts, a)
			}
		}
	}
	canon := ""
	for _, r := range e.liveReplicas() {
		var resp abci.ResponseBeginBlock
		req := rec.begin
		if p := e.call(r, func() { resp = r.app.BeginBlock(req) }); p != nil {
			r.halted = "BeginBlock: " + haltCause(p)
			continue
		}
		d := digestBegin(resp)
		e.logf("h%d r%d %s", h, r.idx, d)
		if r.idx == 0 {
			canon = d
		} else if e.reps[0].halted == "" {
			e.compareReplica(r, "BeginBlock", canon, d)
		}
	}
	rec.canon = append(rec.canon, canon)
	if e.afterConsensusCall("BeginBlock", exp) {
		// on a halt the working state is still inspected: what had already been done?
		if st, err := e.reps[0].app.Snapshot(); err == nil && exp != nil && preBB != nil {
			e.checkHaltState(preBB, st, exp)
			e.flush()
		}
		return
	}
	st := e.snapshot0("BeginBlock", "")
	if exp != nil && exp.ExpectHalt != "" && e.m.Desync == "" {
		e.m.Desync = "model expected a halt (" + exp.ExpectHalt + ") but the application went on"
		e.res.Stats.Probe("model_expected_halt_but_none")
	}
	e.checkBeginBlock(preBB, st, exp, h)
	e.checkParamsUntouched(preBB, st, "BeginBlock")
	e.checkState(st, "BeginBlock", "", h)

	// ---- transactions with read-only traffic in between
	for ti := range b.Txs {
		e.step = (bi+1)*1000 + ti + 1
		e.readOnly(b, ti, h)
		if e.stopped {
			return
		}
		e.deliver(bi, ti, rec, h)
		if e.stopped {
			return
		}
	}
	e.step = (bi+1)*1000 + 900
	e.readOnly(b, len(b.Txs), h)

	// ---- EndBlock
	var mats []Maturity
	preEB := e.last
	var canonUpd []abci.ValidatorUpdate
	canon = ""
	for _, r := range e.liveReplicas() {
		var resp abci.ResponseEndBlock
		if p := e.call(r, func() { resp = r.app.EndBlock(rec.end) }); p != nil {
			r.halted = "EndBlock: " + haltCause(p)
			continue
		}
		d := digestEnd(resp)
		e.logf("h%d r%d %s", h, r.idx, d)
		if r.idx == 0 {
			canon, canonUpd = d, resp.ValidatorUpdates
		} else if e.reps[0].halted == "" {
			e.compareReplica(r, "EndBlock", canon, d)
		}
	}
	rec.canon = append(rec.canon, canon)
	if e.afterConsensusCall("EndBlock", nil) {
		return
	}
	if aerr := e.tm.EndBlock(h, canonUpd); aerr != nil {
		e.addViol(viol("C05", "updates-applicable", e.step, map[string]string{"rule": aerr.Rule, "phase": "EndBlock"},
			"the validator updates of height %d cannot be applied to Tendermint's set: %v", h, aerr))
	} else if ok, why := e.tm.CrossCheck(canonUpd); !ok {
		e.res.Stats.Probe("tendermint_extra_rule:" + haltCause(why))
	}
	if len(canonUpd) > 0 {
		e.res.Stats.C("validator_updates", int64(len(canonUpd)))
	}
	st = e.snapshot0("EndBlock", "")
	// expected set is evaluated on the state right after the updates were computed, i.e. before maturities:
	// maturities only remove unstaking validators, which are not in the set anyway.
	if e.m.Desync == "" {
		mats = e.m.EndBlock()
	}
	e.checkMaturities(preEB, st, mats, h)
	e.checkParamsUntouched(preEB, st, "EndBlock")
	e.checkSet(st, h+2, "EndBlock")
	e.checkState(st, "EndBlock", "", h)

	// ---- Commit (with crash faults) and post-commit faults
	e.commit(bi, rec, h)
}

// afterConsensusCall handles halts of a consensus call. It returns true when the run ends.
func (e *Exec) afterConsensusCall(name string, exp *BBExpect) bool {
	var halted, alive []*replica
	for _, r := range e.reps {
		if r.halted != "" {
			halted = append(halted, r)
		} else {
			alive = append(alive, r)
		}
	}
	if len(halted) == 0 {
		return false
	}
	if len(alive) > 0 {
		// some replicas died on a request others survived: divergence
		e.addViol(viol("C01", "halt-divergence", e.step, map[string]string{"call": name},
			"%d replica(s) halted in %s (%s) while %d carried on", len(halted), name, halted[0].halted, len(alive)))
	}
	e.res.Stats.Halt(halted[0].halted)
	e.stopped = true
	return true
}

// ---------------------------------------------------------------- read-only traffic

func (e *Exec) readOnly(b *Block, pos int, h int64) {
	for i := range b.ReadOnly {
		ro := &b.ReadOnly[i]
		if ro.Pos != pos {
			continue
		}
		for _, r := range e.liveReplicas() {
			if !r.cfg.Noise || r.cfg.Twin {
				continue
			}
			e.oneReadOnly(r, ro, h)
		}
	}
}

func (e *Exec) oneReadOnly(r *replica, ro *ReadOnly, h int64) {
	before := r.app.DumpAll()
	var p interface{}
	switch ro.Kind {
	case "checktx", "simulate":
		if ro.Tx == nil {
			return
		}
		spec := *ro.Tx
		e.resolveFee(&spec)
		f := BuildTx(e.kr, spec, e)
		if ro.Kind == "checktx" {
			var resp abci.ResponseCheckTx
			p = e.call(r, func() { resp = r.app.CheckTx(abci.RequestCheckTx{Tx: f.Bytes}) })
			e.logf("h%d r%d checktx code=%d", h, r.idx, resp.Code)
			if p == nil && e.m.Desync == "" {
				e.syncKeyOnRecord(spec.Acct)
				pred := e.m.PredictTx(&f)
				if pred.MustReject && resp.Code == 0 {
					e.addViol(viol("C03", "accepted-forbidden-tx", e.step, map[string]string{"reason": pred.RejectReason, "call": "CheckTx", "kind": spec.Kind, "key": e.kr.Get(spec.SignBy).Type},
						"CheckTx accepted a %s transaction that must be rejected: %s", spec.Kind, pred.RejectReason))
				}
			}
		} else {
			var resp abci.ResponseQuery
			p = e.call(r, func() { resp = r.app.Query(abci.RequestQuery{Path: "/app/simulate", Data: f.Bytes}) })
			e.logf("h%d r%d simulate code=%d", h, r.idx, resp.Code)
		}
	default:
		data, _ := hex.DecodeString(ro.Data)
		var resp abci.ResponseQuery
		p = e.call(r, func() { resp = r.app.Query(abci.RequestQuery{Path: ro.Path, Data: data, Height: ro.Height, Prove: ro.Prove}) })
		e.logf("h%d r%d query %s code=%d len=%d", h, r.idx, ro.Path, resp.Code, len(resp.Value))
		if p == nil {
			e.checkStoreQuery(r, ro, data, resp, h)
		}
	}
	e.res.Stats.C("readonly_"+ro.Kind, 1)
	if e.exited != nil {
		e.addViol(viol("C11", "process-exited", e.step, map[string]string{"call": ro.Kind},
			"a %s call made the application end the process (os.Exit(%d))", ro.Kind, *e.exited))
		r.halted = "process exited in a read-only call"
		e.stopped = true
		return
	}
	if p != nil {
		if _, isCrash := p.(simdb.Crash); isCrash {
			e.harness("crash sentinel outside Commit")
		}
		if ro.Kind == "checktx" || ro.Kind == "simulate" {
			// a transaction that is refused must leave the process running
			e.addViol(viol("C11", "panic-escaped", e.step, map[string]string{"call": ro.Kind}, "a panic escaped %s: %s", ro.Kind, haltCause(p)))
			r.halted = "readonly panic"
			e.stopped = true
			return
		}
		// a panic inside a plain Query is outside the statements (they only say queries never change
		// state): recorded as an observation, the state check below still applies
		e.res.Stats.Probe("query_panic:" + haltCause(p))
	}
	after := r.app.DumpAll()
	if d := DiffDumps(before, after); len(d) > 0 {
		e.addViol(viol("C11", "read-only-call-changed-state", e.step, map[string]string{"call": ro.Kind},
			"%s changed %d key(s) of the working state, e.g. %s", ro.Kind, len(d), d[0]))
		if r.idx == 0 {
			// keep the before-images of later oracles honest
			e.snapshot0("ReadOnly", "")
		}
	}
}

// PriorSpec implements Prior: the spec executed at (block, tx), fee already resolved.
func (e *Exec) PriorSpec(block, tx int) (TxSpec, bool) {
	s, ok := e.txSpecs[[2]int{block, tx}]
	return s, ok
}

func (e *Exec) resolveFee(s *TxSpec) {
	if s.Fee == -1 {
		msg := BuildMsg(e.kr, *s)
		if msg != nil {
			s.Fee = e.m.RequiredFee(msg.Type(), baseFeeOf(msg.Type())).Int64()
			if s.Fee == 0 {
				s.Fee = -2
			}
		}
	}
}

// ---------------------------------------------------------------- DeliverTx

func (e *Exec) deliver(bi, ti int, rec *blockRecord, h int64) {
	spec := e.tr.Blocks[bi].Txs[ti]
	if spec.Kind == "skip" {
		return
	}
	e.resolveFee(&spec)
	f := BuildTx(e.kr, spec, e)
	e.txBytes[[2]int{bi, ti}] = f.Bytes
	if spec.Kind != "replay" {
		e.txSpecs[[2]int{bi, ti}] = spec
	} else if f.IsReplayOf {
		e.res.Stats.C("tx_replays", 1)
		spec = f.Spec // the facts (signer, fee, message) are those of the original
	} else if f.IsMutCopy {
		e.res.Stats.C("tx_mutated_copies", 1)
		spec = f.Spec
	}
	rec.txs = append(rec.txs, f.Bytes)
	var pred TxPrediction
	modelLive := e.m.Desync == ""
	if modelLive {
		e.syncKeyOnRecord(spec.Acct)
		pred = e.m.PredictTx(&f)
	} else {
		pred.NoClaim = true
	}
	before := e.last
	r0 := e.reps[0]
	var resp0 abci.ResponseDeliverTx
	if p := e.call(r0, func() { resp0 = r0.app.DeliverTx(abci.RequestDeliverTx{Tx: f.Bytes}) }); p != nil {
		if _, isCrash := p.(simdb.Crash); isCrash {
			e.harness("crash sentinel outside Commit")
		}
		if _, isExit := p.(processExit); !isExit {
			e.addViol(viol("C11", "panic-escaped", e.step, map[string]string{"call": "DeliverTx", "kind": spec.Kind}, "a panic escaped DeliverTx: %s", haltCause(p)))
			e.stopped = true
			return
		}
	}
	if e.exited != nil {
		// (a panic the application recovered on the way out does not bring the process back)
		e.addViol(viol("C11", "process-exited", e.step, map[string]string{"call": "DeliverTx", "kind": spec.Kind},
			"delivering a %s transaction made the application end the process (os.Exit(%d)): a transaction, accepted or refused, must leave the process running", spec.Kind, *e.exited))
		e.stopped = true
		return
	}
	rec.results = append(rec.results, resp0)
	d0 := digestDeliver(resp0)
	if os.Getenv("VERIF_DEBUG") != "" {
		fmt.Fprintf(os.Stderr, "DEBUG deliver h%d #%d %s acct=%d code=%d cs=%s log=%.300s\n", h, ti, spec.Kind, spec.Acct, resp0.Code, resp0.Codespace, resp0.Log)
	}
	e.logf("h%d r0 %s", h, d0)
	rec.canon = append(rec.canon, d0)
	e.res.Stats.C("txs", 1)
	st := e.snapshot0("DeliverTx", spec.Kind)
	if st == nil {
		return
	}
	// which stage did the transaction reach? (observed on balances, not on codes)
	ambiguous := false
	stage := "ok"
	if resp0.Code != 0 {
		stage = "pre"
		if f.Fee != nil && f.Fee.Sign() > 0 && before != nil {
			fc := moduleAddrHex("fee_collector")
			d := new(big.Int).Sub(balOf(st, fc), balOf(before, fc))
			if d.Sign() > 0 {
				stage = "handler"
			}
		}
		dustFee := f.FeeDust != nil && f.FeeDust.Sign() > 0
		if dustFee && before != nil {
			// the part of the fee in the second denomination is just as observable
			fc := moduleAddrHex("fee_collector")
			if new(big.Int).Sub(dustOf(st, fc), dustOf(before, fc)).Sign() > 0 {
				stage = "handler"
			}
		}
		// a fee of zero leaves nothing to observe: there the model's verdict on the ante handler decides
		if f.Fee != nil && f.Fee.Sign() == 0 && !dustFee && !pred.NoClaim && pred.AnteOK && !pred.MustReject {
			stage = "handler"
		}
		// ... and without a model (it stopped following the run) the stage of such a transaction is unknown: the
		// twin replica executes it too instead of skipping it
		if stage == "pre" && f.Fee != nil && f.Fee.Sign() == 0 && !dustFee && pred.NoClaim && f.Decodable {
			ambiguous = true
			e.res.Stats.C("tx_stage_unknown_zero_fee", 1)
		}
	}
	rec.preAnte = append(rec.preAnte, stage == "pre" && !ambiguous)
	e.res.Stats.C("tx_"+stage, 1)
	e.res.Stats.C("tx_kind_"+spec.Kind, 1)
	signerKey := e.kr.Get(spec.SignBy).Type
	// ---- C03: acceptance the statement forbids
	if pred.MustReject && stage != "pre" {
		e.addViol(viol(pred.RejectProp, "accepted-forbidden-tx", e.step,
			map[string]string{"reason": pred.RejectReason, "call": "DeliverTx", "kind": spec.Kind, "key": signerKey, "keysrc": spec.KeySrc, "mut": spec.Mut},
			"DeliverTx let a %s transaction pass the ante handler that must be rejected: %s (signer A%d, signed by A%d, fee %v, code %d)",
			spec.Kind, pred.RejectReason, spec.Acct, spec.SignBy, f.Fee, resp0.Code))
	}
	if pred.MustReject {
		e.res.Stats.Probe("must_reject:" + pred.RejectReason)
	}
	if pred.HandlerMustFail && stage == "ok" {
		e.addViol(viol(pred.HandlerProp, "accepted-forbidden-msg", e.step, map[string]string{"reason": pred.HandlerReason, "kind": spec.Kind},
			"the %s message of A%d was executed although it must be refused: %s", spec.Kind, spec.Acct, pred.HandlerReason))
	}
	if pred.HandlerMustFail {
		e.res.Stats.Probe("must_fail:" + pred.HandlerReason)
	}
	if !pred.NoClaim && !pred.MustReject && pred.AnteOK && stage == "pre" {
		e.res.Stats.Probe("unexpected_reject:" + spec.Kind)
		if os.Getenv("VERIF_DEBUG") != "" {
			fmt.Fprintf(os.Stderr, "DEBUG unexpected reject: %+v code=%d cs=%s log=%.200s\n", spec, resp0.Code, resp0.Codespace, resp0.Log)
		}
	}
	if modelLive && pred.NoClaim && stage != "pre" {
		// mutated bytes that the application accepted: the model cannot follow
		e.m.Desync = "mutated transaction bytes were accepted"
		e.res.Stats.Probe("mutated_bytes_accepted")
		if os.Getenv("VERIF_DEBUG") != "" {
			fmt.Fprintf(os.Stderr, "DEBUG mutated accepted: %+v code=%d stage=%s\n", spec, resp0.Code, stage)
		}
	}
	// ---- C11: a rejected transaction leaves no trace (except the fee once the ante handler passed)
	if stage != "ok" && before != nil {
		diff := DiffDumps(before.Raw, st.Raw)
		switch stage {
		case "pre":
			if len(diff) > 0 {
				e.addViol(viol("C11", "rejected-tx-left-trace", e.step, map[string]string{"stage": "before-ante-passed", "kind": spec.Kind},
					"a %s transaction rejected with code %d changed %d key(s), e.g. %s", spec.Kind, resp0.Code, len(diff), diff[0]))
			}
		case "handler":
			allowed := map[string]bool{
				"auth:01" + hx(e.kr.Get(spec.Acct).Addr): true,
				"auth:01" + moduleAddrHex("fee_collector"): true,
			}
			var extra []string
			for _, k := range diff {
				if !allowed[k] {
					extra = append(extra, k)
				}
			}
			if len(extra) > 0 {
				e.addViol(viol("C11", "rejected-tx-left-trace", e.step, map[string]string{"stage": "handler-failed", "kind": spec.Kind},
					"a %s transaction whose message failed (code %d) changed %d key(s) besides the fee, e.g. %s", spec.Kind, resp0.Code, len(extra), extra[0]))
			}
			if len(extra) > 0 && (spec.Kind == "change_param" || spec.Kind == "dao_transfer" || spec.Kind == "dao_burn" || spec.Kind == "upgrade") {
				// C17 says it for governance messages in its own words: "every other governance message is rejected and changes nothing"
				e.addViol(viol("C17", "rejected-gov-msg-changed-state", e.step, map[string]string{"kind": spec.Kind},
					"a rejected %s message (code %d) changed %d key(s) besides the fee, e.g. %s", spec.Kind, resp0.Code, len(extra), extra[0]))
			}
			// ... and the two accounts it may touch change by the fee, nothing else
			if sa := hx(e.kr.Get(spec.Acct).Addr); before.HasKey[sa] != st.HasKey[sa] {
				e.addViol(viol("C11", "rejected-tx-left-trace", e.step, map[string]string{"stage": "handler-failed", "kind": spec.Kind, "what": "sender-record"},
					"a %s transaction whose message failed (code %d) changed its sender's account record beyond the balance: key on record %v -> %v", spec.Kind, resp0.Code, before.HasKey[sa], st.HasKey[sa]))
			}
			if f.Fee != nil {
				sa, fc := hx(e.kr.Get(spec.Acct).Addr), moduleAddrHex("fee_collector")
				paid := new(big.Int).Sub(balOf(before, sa), balOf(st, sa))
				got := new(big.Int).Sub(balOf(st, fc), balOf(before, fc))
				if paid.Cmp(f.Fee) != 0 || got.Cmp(f.Fee) != 0 {
					e.addViol(viol("C11", "rejected-tx-left-trace", e.step, map[string]string{"stage": "handler-failed", "kind": spec.Kind, "what": "more-than-the-fee"},
						"a %s transaction whose message failed (code %d) cost its sender %s and brought the fee collector %s; the fee is %s", spec.Kind, resp0.Code, paid, got, f.Fee))
				}
			}
		}
	}
	// ---- governance: only the named parameter may change, and only through its owner (C17)
	if before != nil {
		e.checkParams(before, st, &spec, stage)
	}
	// ---- model follows the observed stage, then full comparison
	if e.m.Desync == "" && !pred.NoClaim {
		e.applyToModel(&f, stage)
	}
	if stage == "ok" && spec.To == AcctPool && (spec.Kind == "send" || spec.Kind == "dao_transfer") {
		e.poolGifts.Add(e.poolGifts, f.Amount)
	}
	e.checkState(st, "DeliverTx", spec.Kind, h)

	// ---- the other replicas
	for _, r := range e.liveReplicas() {
		if r.idx == 0 {
			continue
		}
		if r.cfg.Twin && stage == "pre" && !ambiguous {
			continue
		}
		var resp abci.ResponseDeliverTx
		if p := e.call(r, func() { resp = r.app.DeliverTx(abci.RequestDeliverTx{Tx: f.Bytes}) }); p != nil {
			e.addViol(viol("C11", "panic-escaped", e.step, map[string]string{"call": "DeliverTx", "kind": spec.Kind}, "a panic escaped DeliverTx on replica %d: %s", r.idx, haltCause(p)))
			e.stopped = true
			return
		}
		d := digestDeliver(resp)
		e.logf("h%d r%d %s", h, r.idx, d)
		e.compareReplica(r, "DeliverTx", d0, d)
	}
}

func balOf(st *AppState, addrHex string) *big.Int {
	if b, ok := st.Balances[addrHex]; ok {
		return b
	}
	return new(big.Int)
}

// syncKeyOnRecord: whether a key is stored with the account is read off the application's own account record
// (the statement says under which key a signature must verify, not when an implementation records keys).
func (e *Exec) syncKeyOnRecord(acct int) {
	if e.last == nil || e.last.HasKey == nil {
		return
	}
	e.m.KeyOnRecord[acct] = e.last.HasKey[hx(e.kr.Get(acct).Addr)]
}

func dustOf(st *AppState, addrHex string) *big.Int {
	if b, ok := st.Dust[addrHex]; ok {
		return b
	}
	return new(big.Int)
}

func (e *Exec) applyToModel(f *TxFacts, stage string) {
	e.m.ApplyTx(f, stage)
}

// ---------------------------------------------------------------- Commit

func (e *Exec) commit(bi int, rec *blockRecord, h int64) {
	b := &e.tr.Blocks[bi]
	e.step = (bi+1)*1000 + 950
	faults := map[int][]Fault{}
	for _, f := range b.Faults {
		if f.Replica >= 0 && f.Replica < len(e.reps) {
			faults[f.Replica] = append(faults[f.Replica], f)
		}
	}
	canon := ""
	var canonHash []byte
	// replicas without a crash fault commit first so that the canonical hash is known
	order := []*replica{}
	for _, r := range e.liveReplicas() {
		if !hasKind(faults[r.idx], "crash_commit") {
			order = append(order, r)
		}
	}
	for _, r := range e.liveReplicas() {
		if hasKind(faults[r.idx], "crash_commit") {
			order = append(order, r)
		}
	}
	for _, r := range order {
		crash := firstKind(faults[r.idx], "crash_commit")
		start := r.db.Seq()
		r.db.ResetLog()
		if crash != nil {
			k := int64(crash.K)
			if !crashExact(crash) {
				n := int64(r.lastCommitEvents)
				if n <= 0 {
					n = 9
				}
				k = k % n
			}
			if crash.IOErr {
				r.db.FailWrite(start + k)
			} else {
				r.db.CrashBefore(start + k)
			}
		}
		var resp abci.ResponseCommit
		ioBefore := r.db.IOFailures
		p := e.call(r, func() { resp = r.app.Commit() })
		if dead, c := r.db.Dead(); dead && p == nil {
			// the application recovered the crash and went on: the process was killed at that write all the same
			p = c
			e.res.Stats.Probe("crash_recovered_by_application")
		}
		r.db.CrashBefore(-1)
		if p != nil {
			if c, ok := p.(simdb.Crash); ok {
				if os.Getenv("VERIF_DEBUG_ENUM") != "" {
					fmt.Fprintf(os.Stderr, "ENUM crash h%d r%d calls=%d before %q after log %v\n", h, r.idx, r.calls, c.Label, r.db.Log())
				}
				attrs := map[string]string{"crash_before": labelClass(c.Label), "crash_after": lastLabelClass(r.db.Log())}
				if c.IOError {
					e.res.Stats.Fault("io_error_in_commit:" + labelClass(c.Label))
					attrs["io_error"] = "true"
				} else {
					e.res.Stats.Fault("crash_in_commit:" + labelClass(c.Label))
				}
				e.res.Stats.C("crash_points_fired", 1)
				e.recover(r, h, rec, canonHash, "crash_in_commit", attrs)
				if e.stopped {
					return
				}
				continue
			}
			r.halted = "Commit: " + haltCause(p)
			continue
		}
		if crash != nil {
			if crash.IOErr && r.db.IOFailures > ioBefore {
				r.swallowedIOErr = true
				e.res.Stats.Probe("io_error_in_commit_swallowed_by_application")
			} else {
				e.res.Stats.C("crash_points_not_reached", 1)
			}
		}
		r.lastCommitEvents = len(r.db.Log())
		if countHook != nil && r.idx == 1 {
			countHook[bi] = r.lastCommitEvents
		}
		r.height, r.hash = h, resp.Data
		r.hashes[h] = resp.Data
		d := digestCommit(resp)
		e.logf("h%d r%d %s", h, r.idx, d)
		if canon == "" {
			canon, canonHash = d, resp.Data
		} else {
			e.compareReplica(r, "Commit", canon, d)
		}
	}
	rec.canon = append(rec.canon, canon)
	if e.afterConsensusCall("Commit", nil) {
		return
	}
	// the tx index learns the block
	for i, tx := range rec.txs {
		hsh := sha256.Sum256(tx)
		res := abci.ResponseDeliverTx{}
		if i < len(rec.results) {
			res = rec.results[i]
		}
		e.txIndex[hex.EncodeToString(hsh[:])] = &res
		e.m.TxIndex[hex.EncodeToString(hsh[:])] = true
	}
	e.res.Stats.C("blocks", 1)
	if e.reps[0].halted == "" {
		st := e.snapshot0("Commit", "")
		e.checkState(st, "Commit", "", h)
		if st != nil {
			cm := map[string]map[string]string{}
			for name, kvs := range st.Raw {
				m := map[string]string{}
				for _, kv := range kvs {
					m[string(kv.K)] = string(kv.V)
				}
				cm[name] = m
			}
			e.committed[h] = cm
		}
		// C12 through BaseApp: Info reports the committed height and hash
		info := e.reps[0].app.Info(abci.RequestInfo{})
		// (when every replica died inside this Commit there is no hash a Commit returned: the recovered replica's own
		// replayed Commit is what Info must agree with, and the recovery path has compared that already)
		if canonHash == nil && e.reps[0].hashes[h] != nil {
			canonHash = e.reps[0].hashes[h]
		}
		if canonHash != nil && (info.LastBlockHeight != h || !bytes.Equal(info.LastBlockAppHash, canonHash)) {
			e.addViol(viol("C12", "info-after-commit", e.step, nil, "Info reports height %d hash %x after Commit of height %d returned %x", info.LastBlockHeight, info.LastBlockAppHash, h, canonHash))
		}
	}
	// post-commit faults
	for _, r := range e.liveReplicas() {
		for _, f := range faults[r.idx] {
			switch f.Kind {
			case "restart":
				e.res.Stats.Fault("restart")
				e.recover(r, h, rec, canonHash, "restart", nil)
			case "power_loss":
				n := f.K
				if n < 1 {
					n = 1
				}
				labels := r.db.LastLabels(n)
				undone := r.db.UndoLast(n)
				if undone > 0 {
					e.res.Stats.Fault("power_loss")
					first := "none"
					if len(labels) > 0 {
						first = labelClass(labels[0])
					}
					e.recover(r, h, rec, canonHash, "power_loss", map[string]string{"crash_before": first, "undone": "suffix"})
				}
			}
			if e.stopped {
				return
			}
		}
	}
}

func crashExact(f *Fault) bool { return f.Exact }

func hasKind(fs []Fault, k string) bool { return firstKind(fs, k) != nil }
func firstKind(fs []Fault, k string) *Fault {
	for i := range fs {
		if fs[i].Kind == k {
			return &fs[i]
		}
	}
	return nil
}

func labelClass(l string) string {
	if i := strings.Index(l, ":"); i > 0 {
		return l[:i]
	}
	return l
}
func lastLabelClass(log []string) string {
	if len(log) == 0 {
		return "none"
	}
	return labelClass(log[len(log)-1])
}

// recover restarts replica r from its durable state and, if it is behind,
// replays what Tendermint would replay. h is the height the chain is at.
func (e *Exec) recover(r *replica, h int64, rec *blockRecord, canonHash []byte, fault string, attrs map[string]string) {
	if attrs == nil {
		attrs = map[string]string{}
	}
	attrs["fault"] = fault
	attrs["keep_recent"] = fmt.Sprint(r.cfg.Pruning.KeepRecent)
	if r.cfg.Pruning.KeepEvery != 0 {
		attrs["keep_every"] = "nonzero"
	} else {
		attrs["keep_every"] = "0"
	}
	prop := "C13"
	if fault == "restart" {
		prop = "C01"
	}
	r.db.Revive()
	var app *App
	var err error
	p := e.call(r, func() { app, err = NewApp(r.db, r.cfg.Pruning, e.simNode) })
	if p != nil && err == nil {
		err = fmt.Errorf("panic: %v", haltCause(p))
	}
	if err != nil {
		a := copyAttrs(attrs)
		a["height1"] = fmt.Sprint(h == 1)
		e.addViol(viol(prop, "reopen-error", e.step, a, "replica %d cannot reopen its database after %s at height %d: %v", r.idx, fault, h, err))
		r.halted = "reopen failed"
		// this replica is lost; the others go on
		r.halted = "lost:" + fault
		e.dropReplica(r)
		return
	}
	r.app = app
	info := app.Info(abci.RequestInfo{})
	e.logf("h%d r%d recovered at %d %x", h, r.idx, info.LastBlockHeight, info.LastBlockAppHash)
	if info.LastBlockHeight > h || info.LastBlockHeight < 0 {
		e.addViol(viol(prop, "height-after-recovery", e.step, attrs, "replica %d reports height %d after %s at height %d", r.idx, info.LastBlockHeight, fault, h))
		e.dropReplica(r)
		return
	}
	if fault == "restart" && info.LastBlockHeight != h {
		e.addViol(viol("C12", "restart-lost-commit", e.step, attrs, "after a clean stop following Commit of height %d the reopened store reports height %d", h, info.LastBlockHeight))
		e.dropReplica(r)
		return
	}
	if fault == "crash_in_commit" && info.LastBlockHeight < h-1 {
		e.addViol(viol(prop, "height-after-recovery", e.step, attrs, "replica %d fell back to height %d after a crash in the Commit of height %d", r.idx, info.LastBlockHeight, h))
		e.dropReplica(r)
		return
	}
	// the hash reported for an already committed height must be the one that was returned then
	if info.LastBlockHeight >= 1 {
		want := r.hashes[info.LastBlockHeight] // what this replica itself answered when it committed that height
		if want == nil {
			want = e.commitHashAt(info.LastBlockHeight, h, canonHash)
		}
		if want != nil && !bytes.Equal(want, info.LastBlockAppHash) {
			e.addViol(viol(prop, "hash-after-recovery", e.step, attrs, "replica %d reopened at height %d with hash %x, the chain committed %x there", r.idx, info.LastBlockHeight, info.LastBlockAppHash, want))
			e.dropReplica(r)
			return
		}
	}
	// replay what is missing
	for x := info.LastBlockHeight + 1; x <= h; x++ {
		if x == 1 {
			var resp abci.ResponseInitChain
			if p := e.call(r, func() { resp = r.app.InitChain(e.initReq) }); p != nil {
				a := copyAttrs(attrs)
				a["height1"] = "true"
				e.addViol(viol(prop, "replay-failed", e.step, a, "replica %d cannot re-run InitChain after %s: %s", r.idx, fault, haltCause(p)))
				e.dropReplica(r)
				return
			}
			_ = resp
		}
		br := e.history[x-1]
		ok := e.replayBlock(r, x, br, prop, attrs)
		if !ok {
			return
		}
		e.res.Stats.C("blocks_replayed", 1)
	}
	r.height = h
}

func copyAttrs(a map[string]string) map[string]string {
	n := map[string]string{}
	for k, v := range a {
		n[k] = v
	}
	return n
}

func (e *Exec) dropReplica(r *replica) {
	if r.halted == "" {
		r.halted = "dropped"
	}
	if r.idx == 0 {
		e.stopped = true
	}
}

func (e *Exec) commitHashAt(x, h int64, canonHash []byte) []byte {
	if x == h && canonHash != nil {
		return canonHash
	}
	br := e.history[x-1]
	if len(br.canon) == 0 {
		return nil
	}
	c := br.canon[len(br.canon)-1]
	if !strings.HasPrefix(c, "commit ") {
		return nil
	}
	b, _ := hex.DecodeString(strings.TrimPrefix(c, "commit "))
	return b
}

func (e *Exec) replayBlock(r *replica, x int64, br *blockRecord, prop string, attrs map[string]string) bool {
	a := copyAttrs(attrs)
	a["height1"] = fmt.Sprint(x == 1)
	fail := func(call, want, got string) bool {
		a["call"] = call
		e.addViol(viol(prop, "replay-divergence", e.step, a, "replica %d replaying height %d answered %s to %s, the uninterrupted run answered %s", r.idx, x, got, call, want))
		e.dropReplica(r)
		return false
	}
	ci := 0
	next := func() string {
		if ci < len(br.canon) {
			c := br.canon[ci]
			ci++
			return c
		}
		return ""
	}
	var bresp abci.ResponseBeginBlock
	if p := e.call(r, func() { bresp = r.app.BeginBlock(br.begin) }); p != nil {
		return fail("BeginBlock", next(), "panic: "+haltCause(p))
	}
	if want, got := next(), digestBegin(bresp); want != "" && want != got {
		return fail("BeginBlock", want, got)
	}
	for i, tx := range br.txs {
		want := next()
		if r.cfg.Twin && i < len(br.preAnte) && br.preAnte[i] {
			continue
		}
		var resp abci.ResponseDeliverTx
		if p := e.call(r, func() { resp = r.app.DeliverTx(abci.RequestDeliverTx{Tx: tx}) }); p != nil {
			return fail("DeliverTx", want, "panic: "+haltCause(p))
		}
		if got := digestDeliver(resp); want != "" && want != got {
			return fail("DeliverTx", want, got)
		}
	}
	var eresp abci.ResponseEndBlock
	if p := e.call(r, func() { eresp = r.app.EndBlock(br.end) }); p != nil {
		return fail("EndBlock", next(), "panic: "+haltCause(p))
	}
	if want, got := next(), digestEnd(eresp); want != "" && want != got {
		return fail("EndBlock", want, got)
	}
	var cresp abci.ResponseCommit
	r.db.ResetLog()
	if p := e.call(r, func() { cresp = r.app.Commit() }); p != nil {
		return fail("Commit", next(), "panic: "+haltCause(p))
	}
	r.lastCommitEvents = len(r.db.Log())
	if want, got := next(), digestCommit(cresp); want != "" && want != got {
		return fail("Commit", want, got)
	}
	r.hash = cresp.Data
	r.hashes[x] = cresp.Data
	return true
}

// ---------------------------------------------------------------- end of run

func (e *Exec) finish() {
	e.flush()
	// final Info on every live replica must agree
	var h0 []byte
	for i, r := range e.liveReplicas() {
		info := r.app.Info(abci.RequestInfo{})
		e.logf("final r%d %d %x", r.idx, info.LastBlockHeight, info.LastBlockAppHash)
		if i == 0 {
			h0 = info.LastBlockAppHash
		} else if !bytes.Equal(h0, info.LastBlockAppHash) && !e.stopped {
			e.compareReplica(r, "Info", fmt.Sprintf("info %x", h0), fmt.Sprintf("info %x", info.LastBlockAppHash))
		}
	}
	e.flush()
	for _, v := range e.res.Violations {
		e.logf("violation %s", v.Signature())
	}
	e.res.Digest = hex.EncodeToString(e.log.Sum(nil)[:12])
	th := sha256.Sum256(e.tr.Marshal())
	e.res.TraceHash = hex.EncodeToString(th[:8])
	c := e.res.Stats.Counters
	e.res.NonTrivial = c["blocks"] >= 1 && (c["tx_ok"] >= 1 || c["votes_missed"] >= 1 || len(e.res.Stats.Faults) > 0)
	if e.m.Desync != "" {
		e.res.Stats.Probe("model_desync")
	}
}
