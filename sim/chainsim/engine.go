package chainsim

import (
	"encoding/json"
	"fmt"

	"verifsim/core"
)

// Engine adapts chainsim to the core supervisor.
type Engine struct{}

func (Engine) Name() string { return "chainsim" }

var components = map[string]string{
	"posmint baseapp, store/*, types, x/auth, x/pos, x/gov, crypto, codec": "real code",
	"tendermint abci/types, crypto, types (pubkey conversion, tx hash), go-amino, iavl v0.12.4": "real code",
	"Tendermint consensus / mempool / block clock / validator set / evidence": "stub: the simulator issues every ABCI call",
	"Tendermint RPC tx index (ante handler's duplicate lookup)":               "stub: in-memory index behind rpc/client overlay",
	"node.Node":                                 "stub: shell with Config() only",
	"disk (goleveldb)":                          "stub: SimDB (ordered write events, crash before any event, undo of unsynced suffix)",
	"other modules of the embedding application": "stub: simmod (MsgSimAward / MsgSimBurn call the real AwardCoinsTo / BurnValidator)",
	"Go map iteration order":                    "seeded per replica and per ABCI call through a runtime overlay",
}

func (Engine) Plan(property, tier string) core.Plan {
	p := core.Plan{Level: "exploration", MaxWall: 150, Components: components}
	runs := map[string]int{"C01": 2400, "C02": 4800, "C03": 5600, "C04": 4800, "C05": 4800, "C06": 4800, "C07": 4800, "C08": 3000,
		"C09": 4000, "C10": 4800, "C11": 4000, "C12": 2000, "C13": 150, "C14": 2000, "C17": 4800}[property]
	if runs == 0 {
		runs = 800
	}
	if tier == "thorough" {
		runs *= 12
		p.MaxWall = 1500
	}
	p.Runs = runs
	p.Rule = "one case = one seeded trace (genesis, block histories with votes/evidence/proposer/clock, transactions, read-only traffic, restart/crash faults, replica configurations) executed against the real application; " +
		"distinct = distinct trace digest; non-trivial = at least one committed block and (an accepted transaction or a missed vote or a fired fault)"
	p.Assumptions = []string{
		"Tendermint is an ABCI-conformant driver (stub)",
		"goleveldb gives atomic batches and prefix durability (SimDB models exactly that)",
		"the reference model (math/big) is right where it is stricter than the model-free invariants",
		"sampling: a clean batch is evidence, not proof",
	}
	if property == "C13" {
		p.Level = "fault_enumeration"
		p.Rule = "per sampled history every DB write event of the selected commits (first, last, one random; thorough: all) is used as crash point on replica 1; " + p.Rule
	}
	return p
}

func (Engine) Generate(property, tier string, seed uint64, idx uint64) []byte {
	return Generate(property, tier, seed).Marshal()
}

func (Engine) Execute(trace []byte) (*core.Result, error) {
	tr, err := UnmarshalTrace(trace)
	if err != nil {
		return nil, err
	}
	return Execute(tr)
}

func (Engine) Sample(trace []byte) interface{} {
	tr, err := UnmarshalTrace(trace)
	if err != nil {
		return string(trace)
	}
	txs := 0
	var kinds []string
	for _, b := range tr.Blocks {
		txs += len(b.Txs)
		for _, t := range b.Txs {
			if len(kinds) < 12 {
				kinds = append(kinds, fmt.Sprintf("%s(A%d)", t.Kind, t.Acct))
			}
		}
	}
	first := json.RawMessage("{}")
	if len(tr.Blocks) > 1 {
		b, _ := json.Marshal(tr.Blocks[1])
		if len(b) < 1500 {
			first = b
		}
	}
	return map[string]interface{}{"mode": tr.Mode, "seed": tr.Seed, "accounts": len(tr.Genesis.Balances), "genesis_validators": tr.Genesis.Validators,
		"replicas": tr.Config.Replicas, "blocks": len(tr.Blocks), "txs": txs, "first_tx_kinds": kinds, "block_2": first}
}
