package chainsim

import (
	"strings"
	"encoding/hex"
	"fmt"
	"math/big"
	"time"

	sdk "github.com/pokt-network/posmint/types"
	authTypes "github.com/pokt-network/posmint/x/auth/types"
	govTypes "github.com/pokt-network/posmint/x/gov/types"
	posTypes "github.com/pokt-network/posmint/x/pos/types"

	"verifsim/core"
)

// Generation is driven by the reference model's state, never by the
// application's answers: a trace is a pure function of its seed.

type genCfg struct {
	mode     string
	blocks   int
	maxTxs   int
	w        map[string]int // tx kind weights
	advRate  float64        // adversarial signing variants
	feeRate  float64        // odd fees
	evRate   float64        // evidence per block
	oldEvRate float64       // share of evidence that is outside the window
	badEvRate float64       // evidence the code is documented to halt on
	missP    float64
	bigWindow int // > 0: SignedBlocksWindow of the run (downtime mode, long runs)
	roRate   float64 // read-only calls per position
	restartRate float64
	crashRate float64
	powerLossRate float64
	rawRate  float64
}

type valBehaviour struct {
	kind string // always never bernoulli burst
	p    float64
	phase int
}

type gen struct {
	r    *core.Rng
	tr   *Trace
	kr   *Keyring
	m    *Model
	cfg  genCfg
	nAcct int
	sets map[int64][]SetMember // generator-side Tendermint set per height
	beh  map[int]*valBehaviour
	acctOf map[string]int
	times map[int64]int64
	txFacts map[[2]int]*TxFacts
	entropy int64
	accepted [][2]int // (block, tx) of transactions the model accepted (candidates for replay)
	prop     string   // the property the run is generated for
	rawDelivered [][2]int // (block, tx) of byte-level variants of accepted transactions that were delivered
	pastQueries []ReadOnly // store queries with an explicit height issued so far (asked again later)
	aclTaker int      // while a gov/acl value is being built: the account it should name as the list's owner (-1: none)
	refused  [][2]int // ... and of those it saw refused, before or after the ante handler passed (replayed too)
	pendingIndex []string
}

func modeFor(property string, r *core.Rng) string {
	switch property {
	case "C01":
		return "replica"
	case "C02":
		return []string{"general", "rewards", "slashing", "staking"}[r.Intn(4)]
	case "C03":
		return "adversary"
	case "C04", "C05", "C06":
		return []string{"staking", "staking", "slashing"}[r.Intn(3)]
	case "C07":
		return "slashing"
	case "C08":
		return "downtime"
	case "C09":
		return []string{"jail", "jail", "slashing"}[r.Intn(3)]
	case "C10":
		return "rewards"
	case "C11":
		return "hostile"
	case "C12":
		return "restart"
	case "C13":
		return "crash"
	case "C14":
		return "query"
	case "C17":
		return "governance"
	}
	return "general"
}

func baseWeights() map[string]int {
	return map[string]int{"stake": 10, "unstake": 6, "unjail": 4, "send": 10, "change_param": 1, "dao_transfer": 1, "dao_burn": 1,
		"upgrade": 0, "award": 3, "burn": 2, "raw": 1, "replay": 1}
}

func configFor(mode, tier string, r *core.Rng) genCfg {
	c := genCfg{mode: mode, blocks: r.Range(3, 40), maxTxs: r.Range(1, 6), w: baseWeights(), advRate: 0.03, feeRate: 0.05,
		evRate: 0.03, oldEvRate: 0.3, badEvRate: 0.0, missP: 0.1, roRate: 0.0, rawRate: 0.02}
	if tier == "thorough" {
		c.blocks = r.Range(5, 80)
	}
	switch mode {
	case "replica":
		c.roRate = 0.15
		c.restartRate = 0.08
		c.evRate = 0.05
		c.w["change_param"] = 2
	case "staking":
		c.w["stake"], c.w["unstake"], c.w["unjail"], c.w["burn"] = 20, 12, 6, 4
		c.missP = 0.25
	case "slashing":
		c.evRate = 0.2
		c.w["burn"] = 10
		c.w["unstake"] = 10
		c.missP = 0.3
	case "jail":
		c.missP = 0.5
		c.w["unjail"] = 16
		c.w["unstake"] = 8
		c.evRate = 0.06
		c.blocks = r.Range(15, 60)
	case "downtime":
		c.blocks = r.Range(30, 90)
		if tier == "thorough" {
			c.blocks = r.Range(60, 250)
		}
		c.maxTxs = r.Range(0, 2)
		c.missP = []float64{0.3, 0.5, 0.7}[r.Intn(3)]
		if r.Chance(0.03) {
			// a few long runs with a window whose slot numbers need more than one byte, on a chain that outlives it
			c.bigWindow = r.Range(256, 300)
			c.blocks = c.bigWindow + r.Range(20, 90)
			c.missP = 0.7
		}
		c.w["unjail"] = 12
		c.evRate = 0.01
	case "rewards":
		c.w["award"] = 14
		c.w["send"] = 14
		c.maxTxs = r.Range(2, 8)
	case "adversary":
		c.advRate = 0.45
		c.feeRate = 0.3
		c.w["replay"] = 8
		c.w["change_param"] = 3
		c.w["dao_transfer"] = 3
		c.roRate = 0.1
	case "hostile":
		c.rawRate = 0.25
		c.advRate = 0.15
		c.feeRate = 0.15
		c.roRate = 0.5
		c.w["raw"] = 12
		c.w["replay"] = 4
		c.w["change_param"], c.w["dao_transfer"], c.w["dao_burn"], c.w["upgrade"] = 4, 3, 3, 1
	case "governance":
		c.w["change_param"], c.w["dao_transfer"], c.w["dao_burn"], c.w["upgrade"] = 30, 10, 8, 4
		c.w["stake"], c.w["send"] = 4, 6
		c.roRate = 0.25
	case "restart":
		c.restartRate = 0.25
		c.roRate = 0.05
	case "crash":
		c.blocks = r.Range(2, 8)
		c.crashRate = 0
		c.powerLossRate = 0
	case "query":
		c.roRate = 0.6
		c.restartRate = 0.15 // queries right after a restart, before the new process has committed anything
	}
	// a node may be restarted between any two blocks, whatever the run is about: what the process kept in memory
	// only (caches, queues, notes) is gone then
	if c.restartRate == 0 && mode != "crash" && r.Chance(0.5) {
		c.restartRate = 0.06
	}
	// ... or die inside a Commit and replay the block after the restart
	if c.crashRate == 0 && mode != "crash" && mode != "replica" && mode != "hostile" && r.Chance(0.4) {
		c.crashRate = 0.04
	}
	// swarm: switch some things off entirely in a run
	if r.Chance(0.3) {
		c.evRate = 0
	}
	if r.Chance(0.2) {
		c.missP = 0
	}
	return c
}

var stakeChoices = []int64{1000001, 1000002, 1500000, 2000000, 2000000, 3000000, 5000000, 9999999, 10000000, 123456789, 1000000000000}

// Generate builds the trace of one run.
func Generate(property, tier string, seed uint64) *Trace {
	r := core.NewRng(seed)
	mode := modeFor(property, r)
	g := &gen{prop: property, aclTaker: -1, r: r, cfg: configFor(mode, tier, r), sets: map[int64][]SetMember{}, beh: map[int]*valBehaviour{}, acctOf: map[string]int{},
		times: map[int64]int64{}, txFacts: map[[2]int]*TxFacts{}}
	tr := &Trace{Engine: "chainsim", Property: property, Mode: mode, Seed: seed, KeySeed: core.SplitMix64(seed ^ 0x6b657973)}
	g.tr = tr
	// ---- accounts
	g.nAcct = r.Range(4, 9)
	gen := &tr.Genesis
	gen.TimeUnix = 1600000000 + int64(r.Intn(1000))
	for i := 0; i < g.nAcct; i++ {
		kt := "ed"
		if r.Chance(0.12) {
			kt = "secp"
		}
		if (mode == "adversary" || mode == "hostile") && i >= 3 && r.Chance(0.25) {
			kt = []string{"multi2", "multi3", "nested"}[r.Intn(3)]
		}
		gen.KeyTypes = append(gen.KeyTypes, kt)
		var b int64
		switch r.Pick([]int{1, 1, 6, 3, 1}) {
		case 0:
			b = 0
		case 1:
			b = int64(r.Range(1, 20000))
		case 2:
			b = int64(r.Range(2000000, 60000000))
		case 3:
			b = int64(r.Range(100000000, 2000000000))
		case 4:
			b = 4000000000000000000
			if r.Chance(0.4) {
				gen.Kilo = append(gen.Kilo, i) // 4e21: a stake of it has a consensus power whose token value is beyond 2^63
			}
		}
		gen.Balances = append(gen.Balances, b)
	}
	if r.Chance(0.08) {
		// two rich accounts whose balances are below 2^64 each and beyond it together
		gen.Balances[1], gen.Balances[2] = 4000000000000000000, 4000000000000000000
		gen.Quad = append(gen.Quad, 2)
		var kilo []int
		for _, k := range gen.Kilo {
			if k != 1 && k != 2 {
				kilo = append(kilo, k)
			}
		}
		gen.Kilo = kilo
	}
	if r.Chance(0.4) {
		bigDust := r.Chance(0.4)
		for i := 0; i < g.nAcct; i++ {
			d := int64(0)
			if r.Chance(0.5) {
				d = int64(r.Range(1, 1000))
				if bigDust {
					d = int64(r.Range(1000000, 90000000)) // as much of it as of the stake denomination
				}
			}
			gen.Dust = append(gen.Dust, d)
		}
		if r.Chance(0.5) {
			// a third denomination nobody ever moves
			for i := 0; i < g.nAcct; i++ {
				t := int64(0)
				if r.Chance(0.6) {
					t = int64(r.Range(1, 50000000))
				}
				gen.Third = append(gen.Third, t)
			}
		}
	}
	// entropies: small counters in most runs, values beyond 2^53 in the others
	if r.Chance(0.35) {
		g.entropy = (int64(1) << 62) + int64(r.Intn(1<<30))
	}
	gen.KeyTypes[0] = "ed"
	if gen.Balances[0] < 50000000 {
		gen.Balances[0] = 50000000 + int64(r.Intn(1000000)) // owner of parameters pays many fees
	}
	g.kr = NewKeyring(tr.KeySeed, gen.KeyTypes)
	for i := 0; i < g.nAcct; i++ {
		g.acctOf[hx(g.kr.Get(i).Addr)] = i
	}
	// ---- validators
	nVal := r.Range(1, 5)
	if nVal > g.nAcct-1 {
		nVal = g.nAcct - 1
	}
	equal := r.Chance(0.3)
	eqStake := stakeChoices[r.Intn(len(stakeChoices)-1)]
	used := map[int]bool{}
	for len(gen.Validators) < nVal {
		a := r.Intn(g.nAcct)
		if used[a] || gen.KeyTypes[a] != "ed" {
			if len(used) >= g.nAcct {
				break
			}
			used[a] = true
			continue
		}
		used[a] = true
		st := stakeChoices[r.Intn(len(stakeChoices))]
		if equal {
			st = eqStake
		}
		gv := GenVal{Acct: a, Stake: st}
		if len(gen.Validators) >= 1 && r.Chance(0.06) {
			// exported state: a validator that was unstaking when the state was exported
			gv.Unstaking = true
			gv.UnstakeIn = int64(r.Range(1, 4000)) * int64(time.Second)
		}
		gen.Validators = append(gen.Validators, gv)
	}
	if len(gen.Validators) == 0 {
		gen.KeyTypes[1] = "ed"
		gen.Validators = append(gen.Validators, GenVal{Acct: 1, Stake: 2000000})
	}
	// accounts outside the genesis file (created by their first credit, no key on record)
	for i := 1; i < g.nAcct; i++ {
		isVal := false
		for _, gv := range gen.Validators {
			if gv.Acct == i {
				isVal = true
			}
		}
		if !isVal && !isMultiType(gen.KeyTypes[i]) && r.Chance(0.12) {
			gen.Late = append(gen.Late, i)
		}
	}
	if (property == "C13" || property == "C01") && r.Chance(0.3) {
		// a block gas limit: results then depend on the gas account the process keeps across transactions
		gen.MaxGas = int64(r.Range(150000, 4000000))
	}
	gen.PrevProposer = gen.Validators[0].Acct
	gen.DAOTokens = []int64{0, 1000000, 50000000, 1}[r.Intn(4)]
	gen.DAOOwner = r.Intn(g.nAcct)
	gen.ParamOwner = 0
	if mode == "governance" || r.Chance(0.2) {
		gen.ACLOverride = map[string]int{}
		for _, k := range AllParamKeys {
			if r.Chance(0.25) {
				gen.ACLOverride[k] = r.Intn(g.nAcct)
			}
		}
	}
	if mode == "replica" || r.Chance(0.15) {
		// exported-style signing infos for several addresses (validators keep start height 0)
		n := r.Range(2, g.nAcct)
		for i := 0; i < n; i++ {
			a := r.Intn(g.nAcct)
			dup := false
			for _, s := range gen.SigningInfos {
				if s.Acct == a {
					dup = true
				}
			}
			if dup || gen.KeyTypes[a] != "ed" {
				continue
			}
			gen.SigningInfos = append(gen.SigningInfos, GenSigningInfo{Acct: a, StartHeight: 0})
		}
	}
	// ---- replicas
	prs := []Pruning{{0, 0}, {0, 1}, {1, 0}, {2, 0}, {3, 2}, {100, 10000}, {5, 3}}
	nRep := 1
	switch mode {
	case "replica":
		nRep = r.Range(3, 4)
	case "hostile":
		nRep = 2
	case "restart", "crash", "query":
		nRep = 2
	default:
		if r.Chance(0.25) {
			nRep = 2
		}
	}
	for i := 0; i < nRep; i++ {
		rc := ReplicaCfg{Pruning: prs[r.Intn(len(prs))], MapSeed: r.Uint64()}
		if i > 0 {
			// a machine whose clock is wrong: seconds, minutes, months, decades; slow or fast
			skews := []int64{0, int64(time.Second) * 3, -int64(time.Second) * 3, int64(time.Minute) * 11, -int64(time.Hour) * 5,
				int64(time.Hour) * 24 * 400, -int64(time.Hour) * 24 * 365 * 20, int64(time.Hour) * 24 * 365 * 6}
			rc.ClockSkewNs = skews[r.Intn(len(skews))]
		}
		if mode == "crash" && i == 1 {
			rc.Pruning = prs[1+r.Intn(len(prs)-1)]
			if r.Chance(0.15) {
				rc.Pruning = prs[0]
			}
		}
		tr.Config.Replicas = append(tr.Config.Replicas, rc)
	}
	switch mode {
	case "hostile":
		tr.Config.Replicas[0].Noise = true
		tr.Config.Replicas[1].Twin = true
	case "replica":
		tr.Config.Replicas[nRep-1].Noise = true
	case "query", "restart", "adversary", "governance":
		tr.Config.Replicas[len(tr.Config.Replicas)-1].Noise = true
	default:
		// whatever the run is about, a node also answers CheckTx, Simulate and queries while it executes blocks
		if mode != "crash" && r.Chance(0.4) {
			g.cfg.roRate = 0.08
			tr.Config.Replicas[len(tr.Config.Replicas)-1].Noise = true
		}
	}
	// ---- model of the generator
	g.m = NewModel(g.kr, gen)
	for i := range gen.Balances {
		g.m.Bal[acctKey(i)] = gen.EffectiveBalance(i)
	}
	g.times[0] = gen.TimeUnix * 1e9
	g.sets[1] = g.m.ExpectedSet()
	g.sets[2] = g.sets[1]
	for _, v := range gen.Validators {
		g.beh[v.Acct] = g.newBehaviour()
	}
	// ---- blocks
	for bi := 0; bi < g.cfg.blocks; bi++ {
		g.genBlock(bi)
	}
	if mode == "crash" {
		tr.Config.EnumCrash = true
		n := len(tr.Blocks)
		picks := map[int]bool{0: true, n - 1: true, r.Intn(n): true}
		if tier == "thorough" {
			for i := 0; i < n; i++ {
				picks[i] = true
			}
		}
		for b := range picks {
			tr.Config.CrashBlocks = append(tr.Config.CrashBlocks, b)
		}
		sortInts(tr.Config.CrashBlocks)
	}
	return tr
}

func sortInts(a []int) {
	for i := 1; i < len(a); i++ {
		for j := i; j > 0 && a[j] < a[j-1]; j-- {
			a[j], a[j-1] = a[j-1], a[j]
		}
	}
}

func (g *gen) newBehaviour() *valBehaviour {
	switch g.r.Pick([]int{4, 1, 3, 2}) {
	case 0:
		return &valBehaviour{kind: "always"}
	case 1:
		return &valBehaviour{kind: "never"}
	case 2:
		return &valBehaviour{kind: "bernoulli", p: g.cfg.missP}
	default:
		return &valBehaviour{kind: "burst", phase: g.r.Intn(50)}
	}
}

func (g *gen) setAt(h int64) []SetMember {
	for x := h; x >= 1; x-- {
		if s, ok := g.sets[x]; ok {
			return s
		}
	}
	return nil
}

func (g *gen) pickAcct() int { return g.r.Intn(g.nAcct) }

func (g *gen) valsWith(f func(*MVal) bool) []int {
	var out []int
	for a := 0; a < g.nAcct; a++ {
		if v, ok := g.m.Vals[a]; ok && f(v) {
			out = append(out, a)
		}
	}
	return out
}

func (g *gen) genBlock(bi int) {
	r := g.r
	h := int64(bi) + 1
	b := Block{Proposer: -2, ProposerPick: r.Intn(64)}
	prevT := g.times[h-1]
	// ---- clock
	var dt int64
	switch r.Pick([]int{2, 10, 6, 3, 2, 1}) {
	case 0:
		dt = 0
	case 1:
		dt = int64(time.Second) * int64(r.Range(1, 10))
	case 2:
		dt = int64(time.Minute) * int64(r.Range(1, 12))
	case 3:
		dt = 1
	case 4:
		dt = int64(time.Hour) * int64(r.Range(1, 200))
	case 5:
		dt = int64(time.Hour) * 24 * int64(r.Range(20, 800))
	}
	// aim the clock at a boundary: jailed-until or an unstaking completion, -1ns / exactly / +1ns
	wantUnjail := -1
	if r.Chance(0.35) {
		var targets []int64
		var who []int
		for a, v := range g.m.Vals {
			s := g.m.Sign[a]
			if v.Jailed && s != nil && !s.Forever && s.JailedUntil > prevT {
				targets = append(targets, s.JailedUntil)
				who = append(who, a)
			}
			if v.Status == StUnstaking && v.Completion > prevT {
				targets = append(targets, v.Completion)
				who = append(who, -1)
			}
		}
		if len(targets) > 0 {
			// deterministic choice: smallest target first, then PRNG offset
			idx := 0
			for i := range targets {
				if targets[i] < targets[idx] || (targets[i] == targets[idx] && who[i] < who[idx]) {
					idx = i
				}
			}
			off := int64(r.Intn(3)) - 1
			if d := targets[idx] - prevT + off; d >= 0 {
				dt = d
				wantUnjail = who[idx]
			}
		}
	}
	b.DtNs = dt
	t := prevT + dt
	g.times[h] = t
	// ---- proposer
	switch r.Pick([]int{12, 1, 2}) {
	case 1:
		b.Proposer = -1
	case 2:
		b.Proposer = g.pickAcct()
	}
	// ---- votes of the previous block
	var mvotes []Vote
	if h >= 2 {
		for _, mem := range g.setAt(h - 1) {
			bh := g.beh[mem.Acct]
			if bh == nil {
				bh = g.newBehaviour()
				g.beh[mem.Acct] = bh
			}
			signed := true
			switch bh.kind {
			case "never":
				signed = false
			case "bernoulli":
				signed = !r.Chance(bh.p)
			case "burst":
				w := g.m.P.Window
				if w < 2 {
					w = 2
				}
				signed = ((h+int64(bh.phase))/w)%2 == 0
			}
			if !signed {
				b.Absent = append(b.Absent, mem.Acct)
			}
			mvotes = append(mvotes, Vote{Acct: mem.Acct, Power: mem.Power, Signed: signed})
		}
		// occasionally change a validator's behaviour
		if r.Chance(0.05) && len(mvotes) > 0 {
			g.beh[mvotes[r.Intn(len(mvotes))].Acct] = g.newBehaviour()
		}
	}
	// ---- evidence
	var mevs []EvidenceIn
	nEv := 0
	if h >= 2 && r.Chance(g.cfg.evRate) {
		nEv = 1
		if r.Chance(0.3) {
			nEv = r.Range(2, 4) // several offenders in one block (never the same one twice: that halts by design)
		}
	}
	evUsed := map[int]bool{}
	for evi := 0; evi < nEv; evi++ {
		ev := Evidence{HeightBack: int64(r.Range(1, 3)), Power: -1}
		cands := g.valsWith(func(v *MVal) bool {
			s := g.m.Sign[v.Acct]
			return v.Status != StUnstaked && (s == nil || !s.Tombstoned) && !evUsed[v.Acct]
		})
		if r.Chance(g.cfg.badEvRate) || len(cands) == 0 {
			ev.Acct = g.pickAcct()
		} else {
			ev.Acct = cands[r.Intn(len(cands))]
		}
		if r.Chance(g.cfg.oldEvRate) {
			ev.AgeNs = g.m.P.MaxEvidenceAge + int64(r.Range(1, 1000))*int64(time.Second)
			if r.Chance(0.3) {
				ev.AgeNs = g.m.P.MaxEvidenceAge + 1
			} else if r.Chance(0.25) {
				// less than a second beyond the window
				ev.AgeNs = g.m.P.MaxEvidenceAge + int64(r.Range(1, 999))*int64(time.Millisecond)
			}
		} else {
			ev.AgeNs = []int64{0, 1, g.m.P.MaxEvidenceAge, g.m.P.MaxEvidenceAge - 1, int64(time.Second) * 5}[r.Intn(5)]
		}
		if r.Chance(0.3) {
			ev.Power = []int64{0, 1, 1000, 1 << 40}[r.Intn(4)]
		}
		if evUsed[ev.Acct] {
			continue
		}
		evUsed[ev.Acct] = true
		// keep only evidence the documented code path does not halt on (unless badEvRate asks for it)
		ok := g.m.EverVal[ev.Acct]
		if v, has := g.m.Vals[ev.Acct]; ok && ev.AgeNs <= g.m.P.MaxEvidenceAge {
			ok = has && v.Status != StUnstaked && !(g.m.Sign[ev.Acct] != nil && g.m.Sign[ev.Acct].Tombstoned)
		}
		if ok || g.cfg.badEvRate > 0 {
			eh := h - ev.HeightBack
			if eh < 1 {
				eh = 1
			}
			pw := ev.Power
			if pw < 0 {
				pw = 1
				for _, mem := range g.setAt(eh) {
					if mem.Acct == ev.Acct {
						pw = mem.Power
					}
				}
				// make the trace explicit so that execution does not depend on the generator's view of the set
				ev.Power = pw
			}
			b.Evidence = append(b.Evidence, ev)
			mevs = append(mevs, EvidenceIn{Acct: ev.Acct, Height: eh, Time: t - ev.AgeNs, Power: pw})
		}
	}
	propAcct := -1
	if b.Proposer >= 0 {
		propAcct = b.Proposer
	} else if b.Proposer == -2 {
		set := g.setAt(h)
		if len(set) > 0 {
			// same order as the executor: members sorted by address
			sorted := append([]SetMember{}, set...)
			for i := 1; i < len(sorted); i++ {
				for j := i; j > 0 && string(sorted[j].Addr) < string(sorted[j-1].Addr); j-- {
					sorted[j], sorted[j-1] = sorted[j-1], sorted[j]
				}
			}
			propAcct = sorted[b.ProposerPick%len(sorted)].Acct
		}
	}
	exp := g.m.BeginBlock(h, t, propAcct, mvotes, mevs)
	_ = exp
	// ---- transactions
	g.tr.Blocks = append(g.tr.Blocks, b)
	blk := &g.tr.Blocks[bi]
	if bi == 0 {
		g.genParamSetup(bi)
		g.fundMultis(bi)
	}
	n := r.Range(0, g.cfg.maxTxs)
	if wantUnjail >= 0 {
		if v, ok := g.m.Vals[wantUnjail]; ok && v.Stake.IsInt64() && r.Chance(0.25) {
			// the minimum stake is moved right next to the jailed validator's remaining stake before it asks to be unjailed
			if o, ok := g.m.P.ACL["pos/StakeMinimum"]; ok && o >= 0 {
				st := v.Stake.Int64()
				rem := 1000000 - st%1000000
				val := []int64{st + 1, st, st + rem - 1, st + rem/2, st + rem, st - 1}[r.Intn(6)]
				if val >= 1000000 {
					g.addTx(bi, g.honest(TxSpec{Kind: "change_param", Acct: o, ParamKey: "pos/StakeMinimum", ParamVal: ParamJSON(val)}))
				}
			}
		}
		g.addTx(bi, g.honest(TxSpec{Kind: "unjail", Acct: wantUnjail}))
	}
	for i := 0; i < n; i++ {
		g.genTx(bi)
	}
	// ---- read-only traffic
	if g.cfg.roRate > 0 {
		for pos := 0; pos <= len(blk.Txs); pos++ {
			if r.Chance(g.cfg.roRate) {
				ro := g.genReadOnly(bi, pos, h)
				if (ro.Kind == "checktx" || ro.Kind == "simulate") && pos < len(blk.Txs) && r.Chance(0.3) {
					// the very transaction a later position of this block delivers (whatever is wrong with it) is
					// checked or simulated first, as a mempool or a wallet would
					later := blk.Txs[pos+r.Intn(len(blk.Txs)-pos)]
					if later.Kind != "raw" && later.Kind != "skip" && later.Kind != "replay" && later.RawMut == "" {
						cp := later
						ro.Tx = &cp
					}
				}
				blk.ReadOnly = append(blk.ReadOnly, ro)
			}
		}
	}
	// ---- end of block on the generator's model
	g.sets[h+2] = g.m.ExpectedSet()
	g.m.EndBlock()
	for _, key := range g.pendingIndex {
		g.m.TxIndex[key] = true
	}
	g.pendingIndex = nil
	// ---- faults
	for ri := range g.tr.Config.Replicas {
		if r.Chance(g.cfg.restartRate) {
			blk.Faults = append(blk.Faults, Fault{Replica: ri, Kind: "restart"})
		}
		if r.Chance(g.cfg.crashRate) && (bi > 0 || g.cfg.mode == "crash") {
			// (not inside the very first Commit outside the C13 check: what the replay then runs on is the open
			// finding first-commit-crash-mixture, which would be blamed on whatever property the run is about)
			blk.Faults = append(blk.Faults, Fault{Replica: ri, Kind: "crash_commit", K: r.Intn(64), IOErr: r.Chance(0.35)})
		}
		if ri > 0 && g.prop == "C01" && r.Chance(0.08) {
			// this replica's log sink stalls during the block (simulated time jumps inside its loops)
			blk.Faults = append(blk.Faults, Fault{Replica: ri, Kind: "stall", K: r.Intn(12)})
		}
		if r.Chance(g.cfg.powerLossRate) {
			blk.Faults = append(blk.Faults, Fault{Replica: ri, Kind: "power_loss", K: r.Range(1, 6)})
		}
	}
}

// PriorSpec implements Prior for the generator.
func (g *gen) PriorSpec(block, tx int) (TxSpec, bool) {
	if pf, ok := g.txFacts[[2]int{block, tx}]; ok && pf.Spec.Kind != "replay" {
		return pf.Spec, true
	}
	return TxSpec{}, false
}

func (g *gen) honest(s TxSpec) TxSpec {
	s.SignBy = s.Acct
	s.Fee = -1
	g.entropy++
	s.Entropy = g.entropy
	return s
}

// addTx appends a transaction and advances the generator's model with the outcome it predicts.
func (g *gen) addTx(bi int, s TxSpec) {
	blk := &g.tr.Blocks[bi]
	ti := len(blk.Txs)
	blk.Txs = append(blk.Txs, s)
	rs := s
	if rs.Fee == -1 {
		if msg := BuildMsg(g.kr, rs); msg != nil {
			rs.Fee = g.m.RequiredFee(msg.Type(), baseFeeOf(msg.Type())).Int64()
			if rs.Fee == 0 {
				rs.Fee = -2
			}
		}
	}
	f := BuildTx(g.kr, rs, g)
	g.txFacts[[2]int{bi, ti}] = &f
	g.pendingIndex = append(g.pendingIndex, f.Hash)
	if g.m.Desync != "" {
		return
	}
	p := g.m.PredictTx(&f)
	if p.NoClaim {
		return
	}
	stage := "ok"
	switch {
	case p.MustReject || !p.AnteOK:
		stage = "pre"
	case p.HandlerMustFail:
		stage = "handler"
	}
	if stage == "ok" && !g.validBasic(&rs, &f) {
		stage = "pre"
	}
	g.m.ApplyTx(&f, stage)
	if stage != "ok" && s.Kind != "replay" && s.Kind != "raw" && s.RawMut == "" {
		g.refused = append(g.refused, [2]int{bi, ti})
	}
	if stage == "ok" {
		g.accepted = append(g.accepted, [2]int{bi, ti})
		if s.Kind == "change_param" {
			if canon, ok := canonicalParam(s.ParamKey, s.ParamVal); ok {
				g.m.AdoptParam(s.ParamKey, canon, g.acctOf)
			}
		}
	}
}

// validBasic mirrors only what the generator needs to keep its model aligned: cases
// where a well-signed message is refused for reasons the statements do not speak about.
func (g *gen) validBasic(s *TxSpec, f *TxFacts) bool {
	switch s.Kind {
	case "stake":
		if g.kr.Get(s.Acct).Type != "ed" {
			return false
		}
		return f.Amount.Sign() > 0
	case "send":
		return f.Amount.Sign() > 0
	case "burn":
		_, ok := g.m.Vals[s.To]
		return ok
	}
	return true
}

func (g *gen) genParamSetup(bi int) {
	r := g.r
	owner := func(k string) int {
		if o, ok := g.tr.Genesis.ACLOverride[k]; ok {
			return o
		}
		return g.tr.Genesis.ParamOwner
	}
	set := func(k string, v interface{}) {
		g.addTx(bi, g.honest(TxSpec{Kind: "change_param", Acct: owner(k), ParamKey: k, ParamVal: ParamJSON(v)}))
	}
	if r.Chance(0.7) {
		n := len(g.tr.Genesis.Validators)
		set("pos/MaxValidators", uint64(r.Range(1, n+2)))
	}
	if r.Chance(0.8) || g.cfg.mode == "downtime" || g.cfg.mode == "jail" {
		w := int64(r.Range(10, 40))
		if g.cfg.bigWindow > 0 {
			w = int64(g.cfg.bigWindow)
		}
		set("pos/SignedBlocksWindow", w)
	}
	if r.Chance(0.6) {
		fr := []string{"0.5", "0.5", "0", "1", "0.1", "0.9", "0.05", "0.333333333333333333", "0.45", "0.55"}[r.Intn(10)]
		d, _ := sdk.NewDecFromStr(fr)
		set("pos/MinSignedPerWindow", d)
	}
	if r.Chance(0.8) {
		ut := []time.Duration{1, time.Second, time.Minute, 10 * time.Minute, 3 * time.Hour, 21 * 24 * time.Hour, 0}[r.Intn(7)]
		set("pos/UnstakingTime", ut)
	}
	if r.Chance(0.5) {
		set("pos/DowntimeJailDuration", []time.Duration{time.Minute, 10 * time.Minute, time.Hour, 61 * time.Second}[r.Intn(4)])
	}
	if r.Chance(0.4) {
		set("pos/MaxEvidenceAge", []time.Duration{time.Minute, 2 * time.Minute, time.Hour}[r.Intn(3)])
	}
	fracs := []string{"0", "1", "0.01", "0.05", "0.5", "0.000000000000000001", "0.333333333333333333", "0.999999999999999999", "0.1"}
	if r.Chance(0.6) {
		d, _ := sdk.NewDecFromStr(fracs[r.Intn(len(fracs))])
		set("pos/SlashFractionDowntime", d)
	}
	if r.Chance(0.6) {
		d, _ := sdk.NewDecFromStr(fracs[r.Intn(len(fracs))])
		set("pos/SlashFractionDoubleSign", d)
	}
	if r.Chance(0.4) || g.cfg.mode == "adversary" {
		fm := authTypes.FeeMultipliers{Default: int64(r.Range(1, 3))}
		for _, k := range []string{"send", "stake_validator", "unjail", "change_param", "dao_tranfer"} {
			if r.Chance(0.4) {
				fm.FeeMultis = append(fm.FeeMultis, authTypes.FeeMultiplier{Key: k, Multiplier: int64(r.Range(0, 4))})
			}
		}
		set("auth/FeeMultipliers", fm)
	}
}

// fundMultis gives multisignature accounts (which cannot be in the genesis file) their balance.
func (g *gen) fundMultis(bi int) {
	for i, kt := range g.tr.Genesis.KeyTypes {
		_ = kt
		if g.tr.Genesis.outside(i) && g.tr.Genesis.Balances[i] > 0 {
			amt := g.tr.Genesis.Balances[i]
			if amt > 30000000 {
				amt = 30000000
			}
			g.addTx(bi, g.honest(TxSpec{Kind: "send", Acct: 0, To: i, Amount: fmt.Sprint(amt)}))
		}
	}
}

func (g *gen) balance(a int) *big.Int { return new(big.Int).Set(g.m.bal(acctKey(a))) }

func (g *gen) genTx(bi int) {
	r := g.r
	kinds := []string{"stake", "unstake", "unjail", "send", "change_param", "dao_transfer", "dao_burn", "upgrade", "award", "burn", "raw", "replay"}
	ws := make([]int, len(kinds))
	for i, k := range kinds {
		ws[i] = g.cfg.w[k]
	}
	kind := kinds[r.Pick(ws)]
	s := TxSpec{Kind: kind}
	min := g.m.P.StakeMinimum
	fee := int64(10000) * 3
	switch kind {
	case "stake":
		// who: a new ed account, a force-unstaked validator, somebody already staked, a secp account
		cands := []int{}
		for a := 0; a < g.nAcct; a++ {
			if v, ok := g.m.Vals[a]; !ok || v.Status == StUnstaked {
				cands = append(cands, a)
			}
		}
		if len(cands) == 0 || r.Chance(0.15) {
			s.Acct = g.pickAcct()
		} else {
			s.Acct = cands[r.Intn(len(cands))]
		}
		bal := g.balance(s.Acct)
		avail := new(big.Int).Sub(bal, big.NewInt(fee))
		var amt *big.Int
		switch r.Pick([]int{1, 2, 2, 6, 2, 1, 2, 3}) {
		case 0:
			amt = big.NewInt(min - 1)
		case 1:
			amt = big.NewInt(min)
		case 2:
			amt = big.NewInt(min + 1)
		case 3:
			amt = big.NewInt(stakeChoices[r.Intn(len(stakeChoices)-1)])
		case 4:
			amt = new(big.Int).Sub(bal, big.NewInt(10000*g.feeMult("stake_validator")))
		case 5:
			amt = new(big.Int).Add(avail, big.NewInt(fee+1))
		case 6:
			amt = big.NewInt(int64(r.Range(1, 9)) * 1000000)
		default:
			amt = big.NewInt(min + int64(r.Intn(5000000)))
		}
		if amt.Sign() <= 0 {
			amt = big.NewInt(min)
		}
		s.Amount = amt.String()
	case "unstake":
		cands := g.valsWith(func(v *MVal) bool { return v.Status == StStaked })
		if len(cands) == 0 || r.Chance(0.2) {
			s.Acct = g.pickAcct()
		} else {
			s.Acct = cands[r.Intn(len(cands))]
			if len(cands) >= 2 && r.Chance(0.35) {
				// a second validator begins unstaking in the same block: they share a completion time
				other := cands[r.Intn(len(cands))]
				if other != s.Acct {
					g.addTx(bi, g.honest(TxSpec{Kind: "unstake", Acct: other}))
				}
			}
		}
	case "unjail":
		cands := g.valsWith(func(v *MVal) bool { return v.Jailed })
		if len(cands) == 0 || r.Chance(0.2) {
			s.Acct = g.pickAcct()
		} else {
			s.Acct = cands[r.Intn(len(cands))]
		}
	case "send":
		s.Acct = g.pickAcct()
		s.To = g.pickAcct()
		if r.Chance(0.06) {
			s.To = AcctPool
		}
		if r.Chance(0.04) {
			s.To = []int{AcctLong, AcctShort}[r.Intn(2)]
		}
		if r.Chance(0.03) {
			s.To = []int{AcctFee, AcctDAO, AcctPos}[r.Intn(3)]
			if s.To == AcctPos && bi < 2 && !r.Chance(0.25) {
				// observation O1 (DESIGN.md): coins sent to a module address before the module account
				// exists create a plain account there and the next fee distribution halts the chain
				s.To = AcctDAO
			}
		}
		bal := g.balance(s.Acct)
		f := big.NewInt(10000 * g.feeMult("send"))
		var amt *big.Int
		switch r.Pick([]int{2, 2, 2, 1, 8, 1}) {
		case 0:
			amt = big.NewInt(1)
		case 1:
			amt = new(big.Int).Sub(bal, f)
		case 2:
			amt = new(big.Int).Add(new(big.Int).Sub(bal, f), big.NewInt(1))
		case 3:
			amt = bal
		case 4:
			amt = big.NewInt(int64(r.Range(1, 3000000)))
		default:
			amt, _ = new(big.Int).SetString("9000000000000000000000", 10)
		}
		if amt.Sign() <= 0 {
			amt = big.NewInt(1)
		}
		s.Amount = amt.String()
	case "change_param":
		k := AllParamKeys[r.Intn(len(AllParamKeys))]
		if k == "pos/StakeDenom" && (g.prop == "C11" || g.prop == "C10") && r.Chance(0.5) {
			// only for the no-trace property: after such a change stakes move a denomination of their own, unstaking
			// validators cannot be paid back (the chain halts at the first maturity) and the model stops following
		} else if k == "pos/StakeDenom" || k == "pos/SignedBlocksWindow" || k == "auth/TxSigLimit" {
			k = "pos/MaxValidators"
		}
		s.ParamKey = k
		owner, ok := g.m.P.ACL[k]
		switch r.Pick([]int{6, 2, 2}) {
		case 0:
			if ok && owner >= 0 {
				s.Acct = owner
			} else {
				s.Acct = g.pickAcct()
			}
		case 1:
			s.Acct = g.pickAcct()
		default:
			// owner of a different parameter
			k2 := AllParamKeys[r.Intn(len(AllParamKeys))]
			if o, ok := g.m.P.ACL[k2]; ok && o >= 0 {
				s.Acct = o
			} else {
				s.Acct = g.pickAcct()
			}
		}
		g.aclTaker = -1
		if k == "gov/acl" && !(ok && owner == s.Acct) && r.Chance(0.5) {
			// somebody who does not own the list submits a well-formed list that names them as its owner
			g.aclTaker = s.Acct
		}
		s.ParamVal = g.paramValue(k)
		g.aclTaker = -1
		if r.Chance(0.12) {
			// a value whose first fields are well-formed and a later one is not
			switch k {
			case "gov/upgrade":
				s.ParamVal = `{"type":"gov/upgrade","value":{"Height":"1000007","Version":5}}`
			case "auth/FeeMultipliers":
				s.ParamVal = `{"fee_multiplier":[{"key":"send","multiplier":"2"}],"default":[1]}`
			case "gov/acl":
				s.ParamVal = `{"type":"gov/non_map_acl","value":[{"acl_key":"gov/acl","address":7}]}`
			}
		}
		if r.Chance(0.1) {
			s.ParamVal = []string{"{", "\"x\"", "12", "[1,2]", "{\"a\":1}", ""}[r.Intn(6)]
		}
		if r.Chance(0.05) {
			s.ParamKey = []string{"pos/Nope", "nope", "gov/", "/acl", "auth/FeeMultipliers/x"}[r.Intn(5)]
			if r.Chance(0.5) {
				// a key that is not literally in the ACL but could be "normalised" into one the sender owns while
				// the write goes elsewhere: dot segments, doubled or trailing slashes, blanks
				owned, victim := AllParamKeys[r.Intn(len(AllParamKeys))], AllParamKeys[r.Intn(len(AllParamKeys))]
				for k, o := range g.m.P.ACL {
					if o == s.Acct && r.Chance(0.5) {
						owned = k
					}
				}
				tail := owned[strings.Index(owned, "/")+1:]
				s.ParamKey = []string{victim + "/../" + tail, victim + "/../../" + owned, strings.Replace(owned, "/", "//", 1), owned + "/", " " + owned, owned + " ",
					strings.Replace(victim, "/", "/./", 1)}[r.Intn(7)]
				s.ParamVal = g.paramValue(victim)
			}
		}
	case "dao_transfer", "dao_burn":
		if r.Chance(0.6) && g.m.P.DAOOwner >= 0 {
			s.Acct = g.m.P.DAOOwner
		} else {
			s.Acct = g.pickAcct()
		}
		s.To = g.pickAcct()
		if r.Chance(0.06) {
			s.To = []int{AcctLong, AcctShort}[r.Intn(2)]
		}
		if r.Chance(0.05) {
			s.To = []int{AcctDAO, AcctDAO, AcctPool}[r.Intn(3)] // to the DAO itself: must change nothing
		}
		dao := g.balance(AcctDAO)
		switch r.Pick([]int{3, 2, 2, 3}) {
		case 0:
			s.Amount = "1"
		case 1:
			s.Amount = dao.String()
		case 2:
			s.Amount = new(big.Int).Add(dao, big.NewInt(1)).String()
		default:
			s.Amount = fmt.Sprint(r.Range(1, 2000000))
		}
		if s.Amount == "0" {
			s.Amount = "1"
		}
		if r.Chance(0.06) {
			// a negative amount passes the message's basic validation (only zero is refused there)
			s.Amount = []string{"-1", "-1000000", "-" + dao.String()}[r.Intn(3)]
			if s.Amount == "-0" {
				s.Amount = "-7"
			}
		}
	case "upgrade":
		if o, ok := g.m.P.ACL["gov/upgrade"]; ok && o >= 0 && r.Chance(0.6) {
			s.Acct = o
		} else {
			s.Acct = g.pickAcct()
		}
		// mostly not a live upgrade: the height is far beyond any run
		s.UpgradeHeight = 1000000 + int64(r.Intn(1000))
		s.UpgradeVersion = []string{"0.0.1", "0.0.0", "9.9.9"}[r.Intn(3)]
		if r.Chance(0.35) {
			// a plan the chain reaches during the run, for a version the node already runs (a newer one makes the
			// real code end the process: gov's BeginBlock calls os.Exit)
			s.UpgradeHeight = int64(bi) + 1 + int64(r.Range(1, 6))
			s.UpgradeVersion = []string{"0.0.1", "0.0.0"}[r.Intn(2)]
		}
	case "award":
		s.Acct = g.pickAcct()
		s.To = g.pickAcct()
		if r.Chance(0.05) {
			s.To = []int{AcctLong, AcctShort}[r.Intn(2)]
		}
		if r.Chance(0.04) && bi >= 2 {
			// an award to a module account's own address (the staked pool is where awards are minted)
			s.To = []int{AcctPool, AcctPool, AcctDAO}[r.Intn(3)]
		}
		s.Amount = []string{"1", "1000", "999999", "1000000", "123456789", "0"}[r.Intn(6)]
	case "burn":
		s.Acct = g.pickAcct()
		cands := g.valsWith(func(v *MVal) bool { return v.Status != StUnstaked })
		if len(cands) == 0 || r.Chance(0.1) {
			s.To = g.pickAcct()
		} else {
			s.To = cands[r.Intn(len(cands))]
		}
		// a validator that is about to mature cannot be burned in the next block (the code halts): keep that rare
		if v, ok := g.m.Vals[s.To]; ok && v.Status == StUnstaking && r.Chance(0.9) {
			s.Kind = "award"
			s.Amount = "1000"
			break
		}
		s.Amount = []string{"0.01", "0.5", "1", "1.5", "0.000000000000000001", "0", "0.333333333333333333", "0.25"}[r.Intn(8)]
	case "raw":
		if len(g.accepted) > 0 && r.Chance(0.7) {
			ref := g.accepted[r.Intn(len(g.accepted))]
			s = g.tr.Blocks[ref[0]].Txs[ref[1]]
			g.entropy++
			s.Entropy = g.entropy
			s.RawMut = fmt.Sprintf("%s:%d", []string{"trunc", "flip", "append", "unkfield", "unkfield"}[r.Intn(5)], r.Intn(4096))
			g.addTx(bi, s)
			g.rawDelivered = append(g.rawDelivered, [2]int{bi, len(g.tr.Blocks[bi].Txs) - 1})
			return
		} else {
			n := r.Range(0, 80)
			raw := make([]byte, n)
			for i := range raw {
				raw[i] = byte(r.Intn(256))
			}
			s.Raw = hex.EncodeToString(raw)
		}
		g.addTx(bi, s)
		return
	case "replay":
		if len(g.accepted) == 0 {
			return
		}
		ref := g.accepted[r.Intn(len(g.accepted))]
		if len(g.rawDelivered) > 0 && r.Chance(0.15) {
			// the very bytes of an earlier byte-level variant of a transaction (which the decoder may have tolerated)
			ref = g.rawDelivered[r.Intn(len(g.rawDelivered))]
		} else if len(g.refused) > 0 && r.Chance(0.3) {
			// the bytes of a transaction that was in a block but refused (by the ante handler or by the message handler)
			ref = g.refused[r.Intn(len(g.refused))]
		}
		if r.Chance(0.3) {
			// the same bytes again within the block they first appeared in (the tx index has not seen that block yet)
			var here [][2]int
			for _, c := range g.accepted {
				if c[0] == bi {
					here = append(here, c)
				}
			}
			for _, c := range g.refused {
				if c[0] == bi {
					here = append(here, c)
				}
			}
			if len(here) > 0 {
				ref = here[r.Intn(len(here))]
			}
		}
		s.ReplayBlock, s.ReplayTx = ref[0], ref[1]
		if r.Chance(0.45) {
			s.Mut = []string{"fee", "memo", "entropy", "msg", "sflip", "sflip", "memosp", "membyte", "strbyte", "feecoin"}[r.Intn(10)]
		}
		g.addTx(bi, s)
		return
	}
	s = g.honest(s)
	// ---- odd fees
	if r.Chance(g.cfg.feeRate) {
		req := int64(0)
		if msg := BuildMsg(g.kr, s); msg != nil {
			req = g.m.RequiredFee(msg.Type(), baseFeeOf(msg.Type())).Int64()
		}
		switch r.Pick([]int{3, 1, 2, 1, 1, 2, 2, 1}) {
		case 5:
			// a coin of another denomination instead of the stake-denom fee
			s.Fee = -2
			s.FeeDust = int64(r.Range(1, 3))
		case 6:
			// ... or next to a stake-denom fee that is one short
			if req > 1 {
				s.Fee = req - 1
			}
			s.FeeDust = 1
		case 7:
			s.Fee = req
			if req == 0 {
				s.Fee = -2
			}
			s.FeeDust = 1
		case 0:
			if req > 0 {
				s.Fee = req - 1
			}
		case 1:
			s.Fee = 0
		case 2:
			s.Fee = req + int64(r.Range(1, 5000))
		case 3:
			s.Fee = req
			s.FeeDenom = "uatom"
		case 4:
			s.Fee = -2
		}
	}
	// ---- adversarial signing
	if r.Chance(g.cfg.advRate) {
		switch r.Pick([]int{6, 2, 5, 2, 2}) {
		case 0:
			// somebody else signs for the named signer
			s.SignBy = g.pickAcct()
			if r.Chance(0.2) {
				s.SignBy = -1 - r.Intn(3)
			}
		case 1:
			s.ChainID = "otherchain"
		case 2:
			s.Mut = []string{"fee", "memo", "entropy", "msg", "sigbit", "sigtrunc", "pubkey", "sflip", "nomsg", "nopubstake", "msigshort", "hashsig", "memosp", "membyte", "strbyte", "feecoin"}[r.Intn(16)]
			if isMultiType(g.kr.Get(s.SignBy).Type) && r.Chance(0.6) {
				s.Mut = []string{"msigshort", "onecosigner"}[r.Intn(2)]
			}
		case 3:
			s.KeySrc = "state"
		case 4:
			s.KeySrc = "state"
			s.SignBy = g.pickAcct()
		}
	}
	if s.Kind == "upgrade" && s.UpgradeHeight < 1000000 && s.Mut == "strbyte" {
		s.Mut = "msg" // a version string the node does not run must never become a reachable plan (os.Exit)
	}
	if r.Chance(0.03) {
		s.Memo = string(make([]byte, 257))
	} else if r.Chance(0.1) {
		s.Memo = "m"
	} else if r.Chance(0.06) && !(s.Kind == "upgrade" && s.UpgradeHeight < 1000000) {
		// notes that are not text: bytes that are not valid UTF-8, a NUL, an escape-worthy character
		s.MemoHex = []string{"706179ff", "fffe", "6100", "22", "c3", "e282"}[r.Intn(6)]
		if s.Mut == "" && r.Chance(0.5) {
			s.Mut = "membyte"
		}
	}
	g.addTx(bi, s)
}

func (g *gen) feeMult(msgType string) int64 {
	if m, ok := g.m.P.FeeMult[msgType]; ok {
		return m
	}
	return g.m.P.FeeDefault
}

func (g *gen) paramValue(k string) string {
	r := g.r
	switch k {
	case "pos/UnstakingTime":
		return ParamJSON([]time.Duration{1, time.Second, time.Hour, 21 * 24 * time.Hour, 0}[r.Intn(5)])
	case "pos/MaxEvidenceAge", "pos/DowntimeJailDuration":
		return ParamJSON([]time.Duration{time.Minute, 5 * time.Minute, time.Hour}[r.Intn(3)])
	case "pos/MaxValidators":
		if r.Chance(0.25) {
			// far more seats than candidates, in numbers whose low 16 bits are small (not beyond: the staked-validators
			// query allocates MaxValidators records at once - observation O11 - and 2^32 of them end the process)
			return ParamJSON([]uint64{65536, 65537, 65538, 131072}[r.Intn(4)])
		}
		return ParamJSON(uint64(r.Range(1, 6)))
	case "auth/MaxMemoCharacters":
		return ParamJSON(uint64([]int{256, 1, 300, 75}[r.Intn(4)]))
	case "auth/TxSigLimit":
		return ParamJSON(uint64(r.Range(2, 8)))
	case "pos/StakeMinimum":
		return ParamJSON(int64([]int{1000000, 2000000, 1000001, 1999999, 1500000, 4990000, 9999999, 1985000}[r.Intn(8)]))
	case "pos/SignedBlocksWindow":
		return ParamJSON(int64(r.Range(10, 40)))
	case "pos/ProposerRewardPercentage":
		return ParamJSON(int8(r.Range(0, 100)))
	case "pos/StakeDenom":
		if g.prop == "C11" || g.prop == "C10" {
			return ParamJSON([]string{ThirdDenom, ThirdDenom, DustDenom, sdk.DefaultStakeDenom}[r.Intn(4)])
		}
		return ParamJSON(sdk.DefaultStakeDenom)
	case "pos/MinSignedPerWindow", "pos/SlashFractionDoubleSign", "pos/SlashFractionDowntime":
		d, _ := sdk.NewDecFromStr([]string{"0.5", "0.1", "0", "1", "0.05", "0.25", "0.333333333333333333", "0.0123456789", "0.0000005", "0.999999999999999999"}[r.Intn(10)])
		return ParamJSON(d)
	case "auth/FeeMultipliers":
		fm := authTypes.FeeMultipliers{Default: int64(r.Range(1, 3))}
		if r.Chance(0.5) {
			fm.FeeMultis = append(fm.FeeMultis, authTypes.FeeMultiplier{Key: "send", Multiplier: int64(r.Range(0, 3))})
		}
		if r.Chance(0.15) {
			// a prohibitive multiplier for one message type (base fee x multiplier beyond 2^63)
			typ := []string{"send", "stake_validator", "dao_tranfer", "begin_unstaking_validator"}[r.Intn(4)]
			fm.FeeMultis = append(fm.FeeMultis, authTypes.FeeMultiplier{Key: typ, Multiplier: []int64{1 << 60, 1<<60 + 1, 1 << 62, 922337203685478}[r.Intn(4)]})
		}
		return ParamJSON(fm)
	case "gov/acl":
		// hand-over: a complete ACL over the registered keys with some owners changed
		var acl govTypes.ACL
		for _, key := range AllParamKeys {
			o, ok := g.m.P.ACL[key]
			if !ok || o < 0 || r.Chance(0.3) {
				o = g.pickAcct()
			}
			if g.aclTaker >= 0 && (key == "gov/acl" || r.Chance(0.3)) {
				o = g.aclTaker
			}
			acl = append(acl, govTypes.ACLPair{Key: key, Addr: g.kr.Get(o).Addr})
		}
		switch {
		case r.Chance(0.1) && len(acl) > 2:
			// a list that leaves one parameter without an owner
			at := r.Intn(len(acl))
			acl = append(acl[:at], acl[at+1:]...)
		case r.Chance(0.08):
			// a list that names a parameter nobody registered
			acl = append(acl, govTypes.ACLPair{Key: "pos/NoSuchParameter", Addr: g.kr.Get(g.pickAcct()).Addr})
		}
		if r.Chance(0.3) {
			// a hand-over done by adding a pair instead of replacing one: the key is listed twice, the first pair names the owner
			dup := govTypes.ACLPair{Key: AllParamKeys[r.Intn(len(AllParamKeys))], Addr: g.kr.Get(g.pickAcct()).Addr}
			at := r.Intn(len(acl) + 1)
			acl = append(acl[:at], append(govTypes.ACL{dup}, acl[at:]...)...)
		}
		return ParamJSON(acl)
	case "gov/daoOwner":
		if r.Chance(0.2) {
			return ParamJSON(sdk.Address{}) // the owner is revoked: nobody may move DAO funds
		}
		return ParamJSON(g.kr.Get(g.pickAcct()).Addr)
	case "gov/upgrade":
		return ParamJSON(govTypes.Upgrade{Height: 1000000 + int64(r.Intn(100)), Version: []string{"0.0.1", "0.0.0", "9.9.9"}[r.Intn(3)]})
	}
	return "1"
}

func (g *gen) genReadOnly(bi, pos int, h int64) ReadOnly {
	r := g.r
	switch r.Pick([]int{4, 4, 3, 3, 1}) {
	case 0, 1:
		kind := "checktx"
		if r.Chance(0.5) {
			kind = "simulate"
		}
		// a valid-looking send or stake that is not part of any block
		s := TxSpec{Kind: "send", Acct: g.pickAcct(), To: g.pickAcct(), Amount: fmt.Sprint(r.Range(1, 100000))}
		if r.Chance(0.3) {
			s = TxSpec{Kind: "stake", Acct: g.pickAcct(), Amount: fmt.Sprint(g.m.P.StakeMinimum + int64(r.Intn(1000000)))}
		}
		if r.Chance(0.15) {
			s = TxSpec{Kind: "unjail", Acct: g.pickAcct()}
		}
		if vs := g.valsWith(func(v *MVal) bool { return v.Status == StStaked }); len(vs) > 0 && r.Chance(0.12) {
			// a validator's begin-unstake, only simulated / checked
			s = TxSpec{Kind: "unstake", Acct: vs[r.Intn(len(vs))]}
		}
		if r.Chance(0.12) {
			// a DAO action that is only simulated / checked: whatever it mints, burns or moves is discarded
			who := g.pickAcct()
			if g.m.P.DAOOwner >= 0 && r.Chance(0.8) {
				who = g.m.P.DAOOwner
			}
			s = TxSpec{Kind: []string{"dao_burn", "dao_transfer"}[r.Intn(2)], Acct: who, To: g.pickAcct(), Amount: fmt.Sprint(r.Range(1, 500000))}
		}
		if r.Chance(0.06) {
			// ... or an award / a burn through the stand-in module
			s = TxSpec{Kind: "award", Acct: g.pickAcct(), To: g.pickAcct(), Amount: fmt.Sprint(r.Range(1, 100000))}
		}
		if g.cfg.mode == "governance" && r.Chance(0.6) {
			// a governance message by whoever the model thinks owns the key (its committed-state view may differ
			// from the view of the block being delivered)
			k := []string{"gov/acl", "gov/daoOwner", "pos/MaxValidators", "auth/MaxMemoCharacters"}[r.Intn(4)]
			who := g.pickAcct()
			if o, ok := g.m.P.ACL[k]; ok && o >= 0 && r.Chance(0.7) {
				who = o
			}
			s = TxSpec{Kind: "change_param", Acct: who, ParamKey: k, ParamVal: g.paramValue(k)}
		}
		s = g.honest(s)
		if r.Chance(0.2) {
			s.SignBy = g.pickAcct()
		}
		return ReadOnly{Pos: pos, Kind: kind, Tx: &s}
	case 2:
		store := []string{"pos", "auth", "params", "main", "nope"}[r.Intn(5)]
		key := []byte{0x01}
		if store == "auth" {
			key = append([]byte{0x01}, g.kr.Get(g.pickAcct()).Addr...)
		} else if store == "pos" {
			key = append([]byte{0x21}, g.kr.Get(g.pickAcct()).Addr...)
		}
		height := int64(0)
		if r.Chance(0.6) {
			height = int64(r.Range(0, int(h)+1))
		}
		sub := "/key"
		if r.Chance(0.15) {
			sub = "/subspace"
		}
		if len(g.pastQueries) > 0 && r.Chance(0.3) {
			// the very same question again, blocks later (the height it names may not have existed the first time)
			q := g.pastQueries[r.Intn(len(g.pastQueries))]
			q.Pos = pos
			return q
		}
		if height > 0 && r.Chance(0.25) {
			height = h + int64(r.Range(0, 3)) // the block in progress, or one that is not there yet
		}
		q := ReadOnly{Pos: pos, Kind: "query_store", Path: "/store/" + store + sub, Data: hex.EncodeToString(key), Height: height, Prove: r.Chance(0.5)}
		if height > 0 {
			g.pastQueries = append(g.pastQueries, q)
		}
		return q
	case 3:
		height := int64(0)
		if r.Chance(0.5) {
			height = int64(r.Range(0, int(h)+1))
		}
		if r.Chance(0.55) {
			// queries that name an address decode one record through the keepers (and whatever caches they hold)
			addr := g.kr.Get(g.pickAcct()).Addr
			if vs := g.valsWith(func(*MVal) bool { return true }); len(vs) > 0 && r.Chance(0.7) {
				addr = g.kr.Get(vs[r.Intn(len(vs))]).Addr
			}
			var p string
			var data []byte
			switch r.Intn(4) {
			case 0:
				p, data = "/custom/pos/validator", posTypes.ModuleCdc.MustMarshalJSON(posTypes.QueryValidatorParams{Address: addr})
			case 1:
				p, data = "/custom/pos/signingInfo", posTypes.ModuleCdc.MustMarshalJSON(posTypes.QuerySigningInfoParams{Address: addr})
			case 2:
				p, data = "/custom/pos/account_balance", posTypes.ModuleCdc.MustMarshalJSON(posTypes.QueryAccountBalanceParams{Address: addr})
			default:
				p, data = "/custom/auth/account", authTypes.ModuleCdc.MustMarshalJSON(authTypes.NewQueryAccountParams(addr))
			}
			return ReadOnly{Pos: pos, Kind: "query_custom", Path: p, Data: hex.EncodeToString(data), Height: height}
		}
		p := []string{"/custom/pos/validators", "/custom/pos/staked_validators", "/custom/pos/unstaking_validators", "/custom/pos/unstaked_validators",
			"/custom/pos/signingInfos", "/custom/pos/parameters", "/custom/pos/stakedPool", "/custom/pos/unstakedPool", "/custom/auth/account",
			"/custom/gov/acl", "/custom/gov/daoOwner", "/custom/gov/dao", "/custom/gov/upgrade", "/custom/pos/nope", "/custom/nope/x"}[r.Intn(15)]
		if g.cfg.mode == "governance" && r.Chance(0.6) {
			p = []string{"/custom/gov/acl", "/custom/gov/daoOwner", "/custom/gov/upgrade", "/custom/gov/dao"}[r.Intn(4)]
		}
		data := "7b7d"
		if r.Chance(0.6) {
			data = hex.EncodeToString([]byte(fmt.Sprintf(`{"Page":%d,"Limit":%d}`, r.Intn(3), r.Range(0, 12))))
		}
		return ReadOnly{Pos: pos, Kind: "query_custom", Path: p, Data: data, Height: height}
	default:
		p := []string{"/app/version", "/p2p/filter/addr/1.2.3.4", "", "/", "/store", "/app", "/app/nope"}[r.Intn(7)]
		return ReadOnly{Pos: pos, Kind: "query_misc", Path: p}
	}
}
