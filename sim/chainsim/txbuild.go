package chainsim

import (
	"bytes"
	"encoding/binary"
	"crypto/sha256"
	"encoding/hex"
	"fmt"
	"math/big"
	"strconv"
	"strings"

	tmtypes "github.com/tendermint/tendermint/types"

	"github.com/pokt-network/posmint/crypto"
	sdk "github.com/pokt-network/posmint/types"
	"github.com/pokt-network/posmint/x/auth"
	govTypes "github.com/pokt-network/posmint/x/gov/types"
	posTypes "github.com/pokt-network/posmint/x/pos/types"
)

// TxFacts is what the simulator knows about a transaction by construction
// (never by asking the application).
type TxFacts struct {
	Spec      TxSpec
	Bytes     []byte
	Hash      string
	Decodable bool   // built through the codec from a well-formed spec
	MsgType   string // message Type() used for fees
	BaseFee   int64
	Signer    int // account index the message declares as signer
	// HonestSig: signed by the signer's own key(s) over the right chain id with no
	// signed field changed afterwards, and the key offered for verification (in the
	// signature, or in state) is the signer's.
	HonestSig bool
	Fee       *big.Int // stake-denom part of the stated fee (nil = the fee names a denomination nobody holds)
	FeeDust   *big.Int // second-denomination part of the fee (nil = none)
	FeeValid  bool     // fee is a valid coin set consisting of the stake denom only (or empty)
	Amount    *big.Int
	IsReplayOf bool
	IsMutCopy  bool // a copy of an earlier transaction with a signed field changed after signing
}

func parseBig(s string) *big.Int {
	if s == "" {
		return big.NewInt(0)
	}
	b, ok := new(big.Int).SetString(s, 10)
	if !ok {
		return big.NewInt(0)
	}
	return b
}

func sdkInt(s string) sdk.Int {
	return sdk.NewIntFromBigInt(parseBig(s))
}

func baseFeeOf(msgType string) int64 {
	if f, ok := posFees[msgType]; ok {
		return f
	}
	if f, ok := govTypes.GovFeeMap[msgType]; ok {
		return f
	}
	return simmodFee
}

// BuildMsg builds the message of a spec (nil for raw / replay kinds).
func BuildMsg(kr *Keyring, s TxSpec) sdk.Msg {
	a := kr.Get(s.Acct)
	switch s.Kind {
	case "stake":
		return posTypes.MsgStake{PubKey: a.Pub, Value: sdkInt(s.Amount)}
	case "unstake":
		return posTypes.MsgBeginUnstake{Address: a.Addr}
	case "unjail":
		return posTypes.MsgUnjail{ValidatorAddr: a.Addr}
	case "send":
		return posTypes.MsgSend{FromAddress: a.Addr, ToAddress: kr.Get(s.To).Addr, Amount: sdkInt(s.Amount)}
	case "change_param":
		return govTypes.MsgChangeParam{FromAddress: a.Addr, ParamKey: s.ParamKey, ParamVal: []byte(s.ParamVal)}
	case "dao_transfer":
		return govTypes.MsgDAOTransfer{FromAddress: a.Addr, ToAddress: kr.Get(s.To).Addr, Amount: sdkInt(s.Amount), Action: govTypes.DAOTransferString}
	case "dao_burn":
		m := govTypes.MsgDAOTransfer{FromAddress: a.Addr, Amount: sdkInt(s.Amount), Action: govTypes.DAOBurnString}
		if s.Entropy%2 == 0 {
			// a burn that (needlessly, legally) names a recipient: it is still a burn
			m.ToAddress = kr.Get(s.To).Addr
		}
		return m
	case "upgrade":
		return govTypes.MsgUpgrade{Address: a.Addr, Upgrade: govTypes.Upgrade{Height: s.UpgradeHeight, Version: s.UpgradeVersion}}
	case "award":
		return MsgSimAward{From: a.Addr, To: kr.Get(s.To).Addr, Amount: sdkInt(s.Amount)}
	case "burn":
		sev, err := sdk.NewDecFromStr(s.Amount)
		if err != nil {
			sev = sdk.ZeroDec()
		}
		return MsgSimBurn{From: a.Addr, Target: kr.Get(s.To).Addr, Severity: sev}
	}
	return nil
}

// Prior resolves references to earlier transactions of the trace (for replays).
type Prior interface {
	PriorSpec(block, tx int) (TxSpec, bool) // the fee-resolved spec that was executed there
}

// BuildTx turns a spec into bytes.
func BuildTx(kr *Keyring, s TxSpec, prior Prior) (f TxFacts) {
	f.Spec = s
	f.Signer = s.Acct
	defer func() {
		if r := recover(); r != nil {
			// a spec the codec refuses to encode (e.g. negative coin): submit nothing decodable
			f.Bytes = []byte("unencodable:" + fmt.Sprint(r))
			f.Decodable = false
			f.Hash = hex.EncodeToString(tmtypes.Tx(f.Bytes).Hash())
		}
	}()
	switch s.Kind {
	case "raw":
		b, _ := hex.DecodeString(s.Raw)
		f.Bytes = b
		f.Hash = hex.EncodeToString(tmtypes.Tx(b).Hash())
		return
	case "replay":
		// the very bytes of an earlier transaction: same facts, same hash
		if orig, ok := prior.PriorSpec(s.ReplayBlock, s.ReplayTx); ok && orig.Kind != "replay" && orig.Kind != "skip" {
			if s.Mut != "" && orig.Mut == "" && orig.RawMut == "" {
				// a copy of an earlier transaction - same key, same signature bytes - with one signed field
				// changed afterwards: other bytes (so no replay), and a signature that was verified before
				orig.Mut = s.Mut
				f = BuildTx(kr, orig, prior)
				f.IsMutCopy = true
				return
			}
			f = BuildTx(kr, orig, prior)
			f.IsReplayOf = true
			return
		}
		f.Bytes = []byte("no-such-prior-tx")
		f.Hash = hex.EncodeToString(tmtypes.Tx(f.Bytes).Hash())
		return
	}
	if s.MemoHex != "" {
		if b, err := hex.DecodeString(s.MemoHex); err == nil {
			s.Memo = string(b)
		}
	}
	msg := BuildMsg(kr, s)
	if msg == nil {
		f.Bytes = []byte("unknown-kind")
		f.Hash = hex.EncodeToString(tmtypes.Tx(f.Bytes).Hash())
		return
	}
	f.MsgType = msg.Type()
	f.BaseFee = baseFeeOf(f.MsgType)
	f.Amount = parseBig(s.Amount)
	denom := s.FeeDenom
	if denom == "" {
		denom = sdk.DefaultStakeDenom
	}
	var fee sdk.Coins
	switch {
	case s.Fee == -2:
		fee = sdk.Coins{}
		f.Fee = big.NewInt(0)
		f.FeeValid = true
	case s.Fee >= 0:
		fee = sdk.Coins{sdk.Coin{Denom: denom, Amount: sdk.NewInt(s.Fee)}}
		f.Fee = big.NewInt(s.Fee)
		f.FeeValid = s.Fee > 0 && denom == sdk.DefaultStakeDenom
		if denom != sdk.DefaultStakeDenom {
			f.Fee = nil
		}
	default:
		// -1 is resolved by the caller before building (needs the fee multiplier in force)
		fee = sdk.Coins{sdk.Coin{Denom: denom, Amount: sdk.NewInt(f.BaseFee)}}
		f.Fee = big.NewInt(f.BaseFee)
		f.FeeValid = true
	}
	if s.FeeDust > 0 {
		// an extra coin of the second denomination; coin sets are sorted by denomination
		fee = append(sdk.Coins{sdk.Coin{Denom: DustDenom, Amount: sdk.NewInt(s.FeeDust)}}, fee...)
		f.FeeDust = big.NewInt(s.FeeDust)
		f.FeeValid = true
		if f.Fee == nil {
			f.Fee = big.NewInt(0)
		}
	}
	chain := s.ChainID
	if chain == "" {
		chain = ChainID
	}
	if s.Mut == "strbyte" {
		// the signer approves a text field that ends in a byte which is not valid UTF-8 ...
		msg = withTextSuffix(msg, "\xff")
		if !hasTextField(msg) {
			s.Memo += "\xff"
		}
	}
	signBytes, err := auth.StdSignBytes(chain, s.Entropy, fee, msg, s.Memo)
	if err != nil {
		panic(err)
	}
	signer := kr.Get(s.SignBy)
	sig := signer.Sign(signBytes)
	var pub crypto.PublicKey = signer.Pub
	honest := s.SignBy == s.Acct && s.ChainID == ""
	if s.KeySrc == "state" {
		pub = nil
		// the key in state is the account's own: a signature by anyone else cannot verify
	}
	tx := auth.StdTx{Msg: msg, Fee: fee, Signature: auth.StdSignature{PublicKey: pub, Signature: sig}, Memo: s.Memo, Entropy: s.Entropy}
	// post-signing mutations of signed fields / of the signature itself
	switch {
	case s.Mut == "" || s.Mut == "none":
	case s.Mut == "fee":
		if len(tx.Fee) > 0 {
			tx.Fee = sdk.Coins{sdk.Coin{Denom: tx.Fee[0].Denom, Amount: tx.Fee[0].Amount.AddRaw(1)}}
			if f.Fee != nil {
				f.Fee = new(big.Int).Add(f.Fee, big.NewInt(1))
			}
		} else {
			tx.Fee = sdk.Coins{sdk.Coin{Denom: sdk.DefaultStakeDenom, Amount: sdk.NewInt(1)}}
			f.Fee = big.NewInt(1)
		}
		honest = false
	case s.Mut == "feecoin":
		// a coin of the second denomination is added to the signed fee (coin sets are sorted by denomination)
		has := false
		for _, c := range tx.Fee {
			has = has || c.Denom == DustDenom
		}
		if !has {
			tx.Fee = append(sdk.Coins{sdk.Coin{Denom: DustDenom, Amount: sdk.NewInt(3)}}, tx.Fee...)
		} else {
			tx.Fee = sdk.Coins{sdk.Coin{Denom: sdk.DefaultStakeDenom, Amount: sdk.NewInt(1)}}
		}
		honest = false
	case s.Mut == "memo":
		tx.Memo = tx.Memo + "x"
		honest = false
	case s.Mut == "memosp":
		// only white space is added to the signed note (before it if there is a note, alone otherwise)
		tx.Memo = " " + tx.Memo + "\t"
		honest = false
	case s.Mut == "membyte":
		// one bit of the last byte of the signed note changes (an empty note gets one byte)
		if b := []byte(tx.Memo); len(b) > 0 {
			b[len(b)-1] ^= 1
			tx.Memo = string(b)
		} else {
			tx.Memo = "n"
		}
		honest = false
	case s.Mut == "strbyte":
		// ... and the transaction carries another such byte there
		if hasTextField(tx.Msg) {
			tx.Msg = withTextSuffix(BuildMsg(kr, s), "\xfe")
		} else {
			tx.Memo = tx.Memo[:len(tx.Memo)-1] + "\xfe"
		}
		honest = false
	case s.Mut == "entropy":
		tx.Entropy++
		honest = false
	case s.Mut == "msg":
		tx.Msg = mutateMsg(kr, s, msg)
		honest = false
	case s.Mut == "sigbit":
		if len(tx.Signature.Signature) > 0 {
			b := append([]byte{}, tx.Signature.Signature...)
			b[len(b)/2] ^= 0x10
			tx.Signature.Signature = b
		}
		honest = false
	case s.Mut == "sigtrunc":
		if len(tx.Signature.Signature) > 1 {
			tx.Signature.Signature = tx.Signature.Signature[:len(tx.Signature.Signature)-1]
		}
		honest = false
	case s.Mut == "sflip":
		// the twin (R, N-S) of a secp256k1 signature: the same signer's approval in other bytes (for other key
		// types this is just a damaged signature)
		tx.Signature.Signature = flipS(tx.Signature.Signature)
		honest = false
	case s.Mut == "msigshort":
		// one of the keys of a multisignature account did not sign (in the nested component if there is one)
		if signer.IsMulti() {
			tx.Signature.Signature = signer.SignShort(signBytes)
		} else if len(tx.Signature.Signature) > 1 {
			tx.Signature.Signature = tx.Signature.Signature[:len(tx.Signature.Signature)-1]
		}
		honest = false
	case s.Mut == "onecosigner":
		// one member of a multisignature account fills every slot with valid signatures of its own
		if sg := signer.SignAllSlotsBy(signBytes); sg != nil {
			tx.Signature.Signature = sg
		} else if len(tx.Signature.Signature) > 1 {
			tx.Signature.Signature = tx.Signature.Signature[:len(tx.Signature.Signature)-1]
		}
		honest = false
	case s.Mut == "hashsig":
		// the signer approved SHA-256(sign bytes), not the sign bytes
		hsb := sha256.Sum256(signBytes)
		tx.Signature.Signature = signer.Sign(hsb[:])
		honest = false
	case s.Mut == "nomsg":
		// well-formed amino for a transaction without a message
		tx.Msg = nil
		honest = false
	case s.Mut == "nopubstake":
		// a stake message that names no key at all (fails basic validation; GetSigner has nothing to derive from)
		tx.Msg = posTypes.MsgStake{Value: sdk.NewInt(2000000)}
		honest = false
	case s.Mut == "pubkey":
		// offer somebody else's key for a signature made by the signer
		tx.Signature.PublicKey = kr.Get(s.Acct + 1000).Pub
		honest = false
	}
	f.HonestSig = honest
	bz, err := appCdc.MarshalBinaryLengthPrefixed(tx)
	if err != nil {
		panic(err)
	}
	f.Decodable = true
	if s.RawMut != "" {
		mb := rawMutate(bz, s.RawMut)
		if strings.HasPrefix(s.RawMut, "unkfield") && !bytes.Equal(mb, bz) {
			// the same transaction in a non-canonical encoding (the decoder skips unknown fields): same facts, other hash
			bz = mb
		} else {
			bz = mb
			f.Decodable = false
			f.HonestSig = false
		}
	}
	f.Bytes = bz
	f.Hash = hex.EncodeToString(tmtypes.Tx(bz).Hash())
	return
}

var secpN, _ = new(big.Int).SetString("FFFFFFFFFFFFFFFFFFFFFFFFFFFFFFFEBAAEDCE6AF48A03BBFD25E8CD0364141", 16)

func flipS(sig []byte) []byte {
	out := append([]byte{}, sig...)
	if len(out) != 64 {
		if len(out) > 0 {
			out[len(out)-1] ^= 1
		}
		return out
	}
	sv := new(big.Int).SetBytes(out[32:])
	sv.Sub(secpN, sv)
	b := sv.Bytes()
	for i := 32; i < 64; i++ {
		out[i] = 0
	}
	copy(out[64-len(b):], b)
	return out
}

// hasTextField / withTextSuffix: the free-text fields of the bundled messages (what JSON sign bytes could blur).
func hasTextField(msg sdk.Msg) bool {
	switch msg.(type) {
	case govTypes.MsgChangeParam, govTypes.MsgUpgrade:
		return true
	}
	return false
}

func withTextSuffix(msg sdk.Msg, suf string) sdk.Msg {
	switch m := msg.(type) {
	case govTypes.MsgChangeParam:
		m.ParamKey += suf
		return m
	case govTypes.MsgUpgrade:
		m.Upgrade.Version += suf
		return m
	}
	return msg
}

func mutateMsg(kr *Keyring, s TxSpec, msg sdk.Msg) sdk.Msg {
	switch m := msg.(type) {
	case posTypes.MsgStake:
		m.Value = m.Value.AddRaw(1)
		return m
	case posTypes.MsgSend:
		m.Amount = m.Amount.AddRaw(1)
		return m
	case posTypes.MsgBeginUnstake:
		// only field is the signer: redirect to another account
		m.Address = kr.Get(s.Acct + 1).Addr
		return m
	case posTypes.MsgUnjail:
		m.ValidatorAddr = kr.Get(s.Acct + 1).Addr
		return m
	case govTypes.MsgChangeParam:
		m.ParamVal = append(append([]byte{}, m.ParamVal...), ' ')
		return m
	case govTypes.MsgDAOTransfer:
		m.Amount = m.Amount.AddRaw(1)
		return m
	case govTypes.MsgUpgrade:
		m.Upgrade.Height++
		return m
	case MsgSimAward:
		m.Amount = m.Amount.AddRaw(1)
		return m
	case MsgSimBurn:
		m.Target = kr.Get(s.To + 1).Addr
		return m
	}
	return msg
}

func rawMutate(b []byte, how string) []byte {
	parts := strings.SplitN(how, ":", 2)
	n := 0
	if len(parts) == 2 {
		n, _ = strconv.Atoi(parts[1])
	}
	if len(b) == 0 {
		return b
	}
	switch parts[0] {
	case "trunc":
		k := n % len(b)
		return append([]byte{}, b[:k]...)
	case "flip":
		c := append([]byte{}, b...)
		c[n%len(c)] ^= byte(1 << uint(n%8))
		return c
	case "append":
		return append(append([]byte{}, b...), byte(n), byte(n>>8))
	case "unkfield":
		// a non-canonical encoding of the same transaction: an unknown field (number 6 + n%8, varint 1) appended
		// inside the length-prefixed struct, length prefix adjusted
		ln, w := binary.Uvarint(b)
		if w <= 0 || int(ln) != len(b)-w {
			return b
		}
		body := append(append([]byte{}, b[w:]...), byte((6+n%8)<<3), 1)
		pre := make([]byte, binary.MaxVarintLen64)
		pw := binary.PutUvarint(pre, uint64(len(body)))
		return append(pre[:pw], body...)
	}
	return b
}
