package chainsim

import (
	"bytes"
	"encoding/hex"
	"fmt"
	"sort"

	abci "github.com/tendermint/tendermint/abci/types"
	tmtypes "github.com/tendermint/tendermint/types"
)

// TMSet is the simulated Tendermint validator set with the ABCI contract:
// InitChain validators form set(1) and set(2); the updates returned by
// EndBlock(H) produce set(H+2); LastCommitInfo of block H lists set(H-1).
type TMSet struct {
	sets map[int64]map[string]TMVal // height -> key(hex pubkey) -> validator
	// cross-check with tendermint's own ValidatorSet implementation
	real *tmtypes.ValidatorSet
	realBroken bool
}

type TMVal struct {
	PubKey abci.PubKey
	Addr   []byte
	Power  int64
}

func pkKey(pk abci.PubKey) string { return pk.Type + ":" + hex.EncodeToString(pk.Data) }

func NewTMSet() *TMSet { return &TMSet{sets: map[int64]map[string]TMVal{}} }

func cloneSet(m map[string]TMVal) map[string]TMVal {
	n := make(map[string]TMVal, len(m))
	for k, v := range m {
		n[k] = v
	}
	return n
}

// ApplyError describes why a batch cannot be applied (C05 (i)).
type ApplyError struct {
	Rule   string // duplicate-key | remove-absent | negative-power | bad-pubkey
	Detail string
}

func (e *ApplyError) Error() string { return e.Rule + ": " + e.Detail }

func applyUpdates(cur map[string]TMVal, ups []abci.ValidatorUpdate) (map[string]TMVal, *ApplyError) {
	seen := map[string]bool{}
	next := cloneSet(cur)
	for _, u := range ups {
		k := pkKey(u.PubKey)
		if seen[k] {
			return nil, &ApplyError{"duplicate-key", k}
		}
		seen[k] = true
		if u.Power < 0 {
			return nil, &ApplyError{"negative-power", fmt.Sprintf("%s power %d", k, u.Power)}
		}
		pk, err := tmtypes.PB2TM.PubKey(u.PubKey)
		if err != nil {
			return nil, &ApplyError{"bad-pubkey", err.Error()}
		}
		if u.PubKey.Type != tmtypes.ABCIPubKeyTypeEd25519 {
			// Tendermint validates updates against ConsensusParams.Validator.PubKeyTypes (ed25519 in every run)
			return nil, &ApplyError{"key-type-not-allowed", fmt.Sprintf("%s", k)}
		}
		if u.Power == 0 {
			if _, ok := cur[k]; !ok {
				return nil, &ApplyError{"remove-absent", k}
			}
			delete(next, k)
			continue
		}
		next[k] = TMVal{PubKey: u.PubKey, Addr: pk.Address(), Power: u.Power}
	}
	return next, nil
}

// Init installs the InitChain validators as set(1) and set(2).
func (t *TMSet) Init(vals []abci.ValidatorUpdate) *ApplyError {
	s, err := applyUpdates(map[string]TMVal{}, vals)
	if err != nil {
		return err
	}
	t.sets[1] = s
	t.sets[2] = cloneSet(s)
	// tendermint's own implementation as a cross-check
	var tv []*tmtypes.Validator
	for _, u := range vals {
		pk, e := tmtypes.PB2TM.PubKey(u.PubKey)
		if e != nil || u.Power <= 0 {
			t.realBroken = true
			return nil
		}
		tv = append(tv, tmtypes.NewValidator(pk, u.Power))
	}
	if len(tv) == 0 {
		t.realBroken = true
		return nil
	}
	func() {
		defer func() {
			if r := recover(); r != nil {
				t.realBroken = true
			}
		}()
		t.real = tmtypes.NewValidatorSet(tv)
	}()
	return nil
}

// EndBlock applies the updates of block h: set(h+2) = apply(set(h+1), ups).
func (t *TMSet) EndBlock(h int64, ups []abci.ValidatorUpdate) *ApplyError {
	cur := t.At(h + 1)
	s, err := applyUpdates(cur, ups)
	if err != nil {
		// keep the set unchanged so the run can go on for other oracles
		t.sets[h+2] = cloneSet(cur)
		return err
	}
	t.sets[h+2] = s
	return nil
}

// CrossCheck runs tendermint's ValidatorSet.UpdateWithChangeSet on the same
// batch. It returns (agree, extraRule): agree=false means tendermint refused a
// batch my three rules accept (an extra tendermint rule, e.g. empty set).
func (t *TMSet) CrossCheck(ups []abci.ValidatorUpdate) (ok bool, reason string) {
	if t.realBroken || t.real == nil {
		return true, ""
	}
	var changes []*tmtypes.Validator
	for _, u := range ups {
		pk, err := tmtypes.PB2TM.PubKey(u.PubKey)
		if err != nil {
			return true, ""
		}
		changes = append(changes, tmtypes.NewValidator(pk, u.Power))
	}
	if len(changes) == 0 {
		return true, ""
	}
	var err error
	func() {
		defer func() {
			if r := recover(); r != nil {
				err = fmt.Errorf("panic: %v", r)
			}
		}()
		err = t.real.UpdateWithChangeSet(changes)
	}()
	if err != nil {
		t.realBroken = true
		return false, err.Error()
	}
	return true, ""
}

// RealMatches compares tendermint's set with the model set for height h.
func (t *TMSet) RealMatches(h int64) (bool, string) {
	if t.realBroken || t.real == nil {
		return true, ""
	}
	m := t.At(h)
	if len(m) != len(t.real.Validators) {
		return false, fmt.Sprintf("sizes differ: %d vs %d", len(m), len(t.real.Validators))
	}
	for _, v := range t.real.Validators {
		found := false
		for _, mv := range m {
			if bytes.Equal(mv.Addr, v.Address) {
				found = mv.Power == v.VotingPower
				break
			}
		}
		if !found {
			return false, fmt.Sprintf("validator %X differs", v.Address)
		}
	}
	return true, ""
}

// At returns the set in force at height h (the latest defined one at or below h).
func (t *TMSet) At(h int64) map[string]TMVal {
	for x := h; x >= 1; x-- {
		if s, ok := t.sets[x]; ok {
			return s
		}
	}
	return map[string]TMVal{}
}

// Sorted returns the members of set(h) ordered by address.
func (t *TMSet) Sorted(h int64) []TMVal {
	m := t.At(h)
	out := make([]TMVal, 0, len(m))
	for _, v := range m {
		out = append(out, v)
	}
	sort.Slice(out, func(i, j int) bool { return bytes.Compare(out[i].Addr, out[j].Addr) < 0 })
	return out
}

func (t *TMSet) PowerOf(h int64, addr []byte) (int64, bool) {
	for _, v := range t.At(h) {
		if bytes.Equal(v.Addr, addr) {
			return v.Power, true
		}
	}
	return 0, false
}
