package chainsim

import (
	"os"
	"encoding/json"
	"bytes"
	"encoding/hex"
	"fmt"
	"math/big"
	"sort"
	"strings"
	"time"

	abci "github.com/tendermint/tendermint/abci/types"
	"github.com/tendermint/tendermint/crypto/merkle"

	"github.com/pokt-network/posmint/store/rootmulti"

	sdk "github.com/pokt-network/posmint/types"
	authTypes "github.com/pokt-network/posmint/x/auth/types"
	govTypes "github.com/pokt-network/posmint/x/gov/types"

	"verifsim/core"
)

// checkAwardsModelFree: when the model no longer follows the run, the queued awards are still visible in the state
// before BeginBlock. If no validator lost stake in this BeginBlock (nothing was burned) the supply of the stake
// denomination in force grows by exactly their sum, and every recipient other than the block's fee earner gains exactly
// its award in that denomination.
func (e *Exec) checkAwardsModelFree(pre, post *AppState, h int64) {
	if pre == nil || post == nil || pre.AwardsOpaque || len(pre.Awards) == 0 {
		return
	}
	for ah, pv := range pre.Vals {
		if av, ok := post.Vals[ah]; !ok || av.StakedTokens.LT(pv.StakedTokens) {
			return // a slash or a removal in this BeginBlock: burns and mints mix
		}
	}
	denom := sdk.DefaultStakeDenom
	if raw, ok := pre.Params["pos/StakeDenom"]; ok {
		var d string
		if json.Unmarshal([]byte(raw), &d) == nil && d != "" {
			denom = d
		}
	}
	bal := func(st *AppState, ah string) *big.Int {
		var b *big.Int
		switch denom {
		case sdk.DefaultStakeDenom:
			b = st.Balances[ah]
		case DustDenom:
			b = st.Dust[ah]
		default:
			b = st.Other[denom][ah]
		}
		if b == nil {
			return new(big.Int)
		}
		return b
	}
	sup := func(st *AppState) *big.Int {
		var b *big.Int
		switch denom {
		case sdk.DefaultStakeDenom:
			b = st.Supply
		case DustDenom:
			b = st.SupplyDust
		default:
			b = st.SupplyOther[denom]
		}
		if b == nil {
			return new(big.Int)
		}
		return b
	}
	sum := new(big.Int)
	addrs := make([]string, 0, len(pre.Awards))
	for ah, a := range pre.Awards {
		sum.Add(sum, a)
		addrs = append(addrs, ah)
	}
	sort.Strings(addrs)
	e.res.Stats.Probe("awards_checked_without_model")
	if got := new(big.Int).Sub(sup(post), sup(pre)); got.Cmp(sum) != 0 {
		e.addViol(viol("C10", "award-mint-exact", e.step, map[string]string{"awards": "true", "model": "off"},
			"BeginBlock of height %d changed the supply of %s by %s; the awards queued for it sum to %s", h, denom, got, sum))
		return
	}
	feeEarners := 0
	for _, ah := range addrs {
		got := new(big.Int).Sub(bal(post, ah), bal(pre, ah))
		if got.Cmp(pre.Awards[ah]) != 0 {
			if got.Cmp(pre.Awards[ah]) > 0 && feeEarners == 0 {
				// the previous proposer also receives whatever the fee collector held in the stake denomination in
				// force (after a change of that denomination plain transfers to the collector's address count too)
				feeEarners++
				continue
			}
			e.addViol(viol("C10", "award-recipient-exact", e.step, map[string]string{"model": "off"},
				"BeginBlock of height %d: %s had %s %s queued as award and its balance changed by %s", h, ah, pre.Awards[ah], denom, got))
			return
		}
	}
}

// checkBeginBlock: exact slash amounts (C07) and the downtime decision (C08) per validator.
func (e *Exec) checkBeginBlock(pre, post *AppState, exp *BBExpect, h int64) {
	if pre != nil && post != nil && e.m.Desync != "" {
		e.checkAwardsModelFree(pre, post, h)
	}
	if pre == nil || post == nil || exp == nil || e.m.Desync != "" {
		return
	}
	// expected burn per validator in this BeginBlock
	want := map[int]*big.Int{}
	cause := map[int]string{}
	for _, s := range exp.Slashes {
		if want[s.Acct] == nil {
			want[s.Acct] = new(big.Int)
		}
		want[s.Acct].Add(want[s.Acct], s.Burned)
		cause[s.Acct] = s.Cause
		e.res.Stats.Probe("slash:" + s.Cause)
		if s.Forced {
			e.res.Stats.Probe("slash_forced_unstake:" + s.Cause)
		}
		if s.Status == StUnstaking {
			e.res.Stats.Probe("slash_of_unstaking_validator")
		}
		if s.Burned.Sign() == 0 {
			e.res.Stats.Probe("slash_burning_nothing:" + s.Cause)
		}
	}
	for ah, pv := range pre.Vals {
		acct, known := e.acctOf[ah]
		if !known {
			continue
		}
		after := new(big.Int)
		if av, ok := post.Vals[ah]; ok {
			after = av.StakedTokens.BigInt()
		}
		delta := new(big.Int).Sub(pv.StakedTokens.BigInt(), after)
		w := want[acct]
		if w == nil {
			w = new(big.Int)
		}
		if delta.Cmp(w) != 0 {
			c := cause[acct]
			if c == "" {
				c = "none"
			}
			e.addViol(viol("C07", "exact-slash-amount", e.step, map[string]string{"cause": c, "status": pv.Status.String()},
				"validator A%d (stake %s, %s) lost %s in BeginBlock of height %d; the statement gives %s (cause %s)", acct, pv.StakedTokens, pv.Status, delta, h, w, c))
		}
	}
	// awards: exactly the queued sum is newly minted (supply delta), when nothing is burned in the same block
	if len(exp.Slashes) == 0 && pre.Supply != nil && post.Supply != nil {
		wantMint := new(big.Int)
		for _, a := range exp.AwardsMinted {
			wantMint.Add(wantMint, a)
		}
		got := new(big.Int).Sub(post.Supply, pre.Supply)
		if got.Cmp(wantMint) != 0 {
			e.addViol(viol("C10", "award-mint-exact", e.step, map[string]string{"awards": fmt.Sprint(len(exp.AwardsMinted) > 0)},
				"BeginBlock of height %d changed the supply by %s; the awards queued for it sum to %s", h, got, wantMint))
		}
		if len(exp.AwardsMinted) > 0 {
			e.res.Stats.Probe("awards_minted")
		}
		if len(exp.AwardsMinted) > 1 {
			e.res.Stats.Probe("several_award_recipients_in_one_block")
		}
	}
	if exp.FeesPaid != nil && exp.FeesPaid.Sign() > 0 {
		if exp.FeesTo >= 0 {
			e.res.Stats.Probe("fees_to_proposer")
		} else {
			e.res.Stats.Probe("fees_stay_in_pos_module_account")
		}
	}
	// downtime decision
	expJ := map[int]bool{}
	for _, a := range exp.DowntimeJailed {
		expJ[a] = true
		e.res.Stats.Probe("downtime_jail")
	}
	for _, a := range exp.Tombstoned {
		expJ[a] = true
		e.res.Stats.Probe("tombstone")
	}
	for ah, pv := range pre.Vals {
		acct, known := e.acctOf[ah]
		if !known {
			continue
		}
		av, ok := post.Vals[ah]
		if !ok {
			continue
		}
		nowJailed := !pv.Jailed && av.Jailed
		switch {
		case nowJailed && !expJ[acct]:
			e.addViol(viol("C08", "downtime-decision", e.step, map[string]string{"what": "jailed-unexpectedly"},
				"validator A%d was jailed in BeginBlock of height %d although its window does not cross the threshold (and no evidence names it)", acct, h))
		case !nowJailed && expJ[acct] && !pv.Jailed:
			e.addViol(viol("C08", "downtime-decision", e.step, map[string]string{"what": "not-jailed-at-threshold"},
				"validator A%d should have been jailed in BeginBlock of height %d", acct, h))
		}
	}
}

// checkHaltState: BeginBlock halted. Whatever the reason, the working state must
// not show a burn the statement does not allow (e.g. for evidence outside the window).
func (e *Exec) checkHaltState(pre, at *AppState, exp *BBExpect) {
	if at.Supply == nil || e.m.Desync != "" {
		return
	}
	// the statement promises an effect (burn, force-unstake, tombstone) for inputs it covers; a block
	// that cannot complete on such inputs never delivers it
	if exp.ExpectHalt == "" && len(exp.Slashes) > 0 {
		cause, forced := exp.Slashes[len(exp.Slashes)-1].Cause, false
		for _, s := range exp.Slashes {
			forced = forced || s.Forced
		}
		e.addViol(viol("C07", "slash-not-applied-block-halted", e.step, map[string]string{"cause": cause, "forced_unstake": fmt.Sprint(forced)},
			"BeginBlock halted (%s) on inputs the statement covers: %d slash(es) (last cause %s) were due in this block and can never be committed", e.firstHalt(), len(exp.Slashes), cause))
	}
	// lower bound: everything the statement lets this block burn, none of what it mints
	lower := new(big.Int).Set(e.m.Supply)
	for _, a := range exp.AwardsMinted {
		lower.Sub(lower, a)
	}
	if at.Supply.Cmp(lower) < 0 {
		e.addViol(viol("C07", "burn-without-cause", e.step, map[string]string{"at": "halt"},
			"BeginBlock halted; at that instant the supply was %s, below the %s the statement allows after all slashes of this block (burned %s too much)",
			at.Supply, lower, new(big.Int).Sub(lower, at.Supply)))
	}
}

// checkMaturities (model-free): a validator leaves the unstaking state exactly in the first
// block whose time is at or after its completion time, and is paid its whole remaining stake.
func (e *Exec) checkMaturities(pre, post *AppState, mats []Maturity, h int64) {
	if pre == nil || post == nil {
		return
	}
	t := e.times[h]
	addrs := make([]string, 0, len(pre.Vals))
	for ah := range pre.Vals {
		addrs = append(addrs, ah)
	}
	sort.Strings(addrs)
	matured := 0
	for _, ah := range addrs {
		pv := pre.Vals[ah]
		if pv.Status != sdk.Unstaking {
			if _, still := post.Vals[ah]; !still {
				e.addViol(viol("C06", "illegal-transition", e.step, map[string]string{"what": "removed-without-unstaking", "status": pv.Status.String()},
					"validator %s (status %s) disappeared in EndBlock of height %d", ah, pv.Status, h))
			}
			continue
		}
		due := !pv.UnstakingCompletionTime.After(time.Unix(0, t).UTC())
		_, still := post.Vals[ah]
		paid := new(big.Int).Sub(balOf(post, ah), balOf(pre, ah))
		switch {
		case due && still:
			e.addViol(viol("C06", "unstake-payout", e.step, map[string]string{"what": "late"},
				"unstaking validator %s completed at %s but is still there after EndBlock of height %d (block time %s)", ah, pv.UnstakingCompletionTime, h, time.Unix(0, t).UTC()))
		case !due && !still:
			e.addViol(viol("C06", "unstake-payout", e.step, map[string]string{"what": "early"},
				"unstaking validator %s was released in EndBlock of height %d (block time %s) before its completion time %s", ah, h, time.Unix(0, t).UTC(), pv.UnstakingCompletionTime))
		case due && !still:
			matured++
			if paid.Cmp(pv.StakedTokens.BigInt()) != 0 {
				e.addViol(viol("C06", "unstake-payout", e.step, map[string]string{"what": "amount"},
					"validator %s matured with stake %s but its account received %s", ah, pv.StakedTokens, paid))
			}
		case !due && still:
			if paid.Sign() != 0 {
				e.addViol(viol("C06", "unstake-payout", e.step, map[string]string{"what": "paid-while-unstaking"},
					"unstaking validator %s received %s in EndBlock before maturing", ah, paid))
			}
		}
	}
	if matured > 0 {
		e.res.Stats.Probe("maturity")
	}
	if matured > 1 {
		e.res.Stats.Probe("several_maturities_in_one_block")
	}
}

// checkParams: a parameter changes only through a governance message of its owner, and that
// message changes that parameter alone (C17).
// checkParamsUntouched (model-free): outside transactions - in BeginBlock and EndBlock - no parameter changes.
func (e *Exec) checkParamsUntouched(before, after *AppState, phase string) {
	if before == nil || after == nil {
		return
	}
	var changed []string
	for k, v := range after.Params {
		if ov, ok := before.Params[k]; !ok || ov != v {
			changed = append(changed, k)
		}
	}
	for k := range before.Params {
		if _, ok := after.Params[k]; !ok {
			changed = append(changed, k)
		}
	}
	if len(changed) > 0 {
		sort.Strings(changed)
		e.addViol(viol("C17", "param-changed-without-gov-msg", e.step, map[string]string{"kind": phase}, "%s changed parameter(s) %v: no governance message was involved", phase, changed))
	}
}

func (e *Exec) checkParams(before, after *AppState, spec *TxSpec, stage string) {
	var changed []string
	for k, v := range after.Params {
		if before.Params[k] != v {
			changed = append(changed, k)
		}
	}
	for k := range before.Params {
		if _, ok := after.Params[k]; !ok {
			changed = append(changed, k)
		}
	}
	sort.Strings(changed)
	isGov := spec.Kind == "change_param" || spec.Kind == "upgrade"
	key := spec.ParamKey
	if spec.Kind == "upgrade" {
		key = "gov/upgrade"
	}
	if !isGov {
		if len(changed) > 0 {
			e.addViol(viol("C17", "param-changed-without-gov-msg", e.step, map[string]string{"kind": spec.Kind}, "a %s transaction changed parameter(s) %v", spec.Kind, changed))
		}
		return
	}
	if stage != "ok" {
		if len(changed) > 0 {
			e.addViol(viol("C17", "rejected-gov-msg-changed-param", e.step, map[string]string{"kind": spec.Kind}, "a rejected %s changed parameter(s) %v", spec.Kind, changed))
		}
		return
	}
	for _, k := range changed {
		if k != key {
			e.addViol(viol("C17", "param-change-touched-other", e.step, map[string]string{"kind": spec.Kind}, "changing %s also changed %s", key, k))
		}
	}
	e.res.Stats.Probe("param_change_accepted:" + key)
	raw, ok := after.Params[key]
	if !ok {
		return
	}
	// the stored value must be the submitted one (when it is well-formed) or the old one
	if spec.Kind == "change_param" && len(changed) > 0 {
		canon, ok := canonicalParam(key, spec.ParamVal)
		if ok && canon != raw {
			e.addViol(viol("C17", "param-value", e.step, map[string]string{"key": key}, "parameter %s was submitted as %s but stored as %s", key, spec.ParamVal, raw))
		}
		if !ok {
			// a value that does not decode as the parameter's type changes nothing: anything else stores a
			// value nobody submitted
			e.addViol(viol("C17", "malformed-value-changed-param", e.step, map[string]string{"key": key},
				"parameter %s was submitted with the malformed value %s and is now %s (was %s)", key, spec.ParamVal, raw, before.Params[key]))
		}
		if !ok {
			e.res.Stats.Probe("malformed_param_value_by_owner")
		}
	}
	if spec.Kind == "change_param" && len(changed) == 0 {
		if _, ok := canonicalParam(key, spec.ParamVal); !ok {
			e.res.Stats.Probe("malformed_param_value_by_owner")
		}
	}
	e.adoptParam(key, raw)
}

func canonicalParam(key, submitted string) (string, bool) {
	dest := paramDest(key)
	if dest == nil {
		return "", false
	}
	if err := appCdc.UnmarshalJSON([]byte(submitted), dest); err != nil {
		return "", false
	}
	bz, err := appCdc.MarshalJSON(dest)
	if err != nil {
		return "", false
	}
	return string(bz), true
}

func paramDest(key string) interface{} {
	switch key {
	case "pos/UnstakingTime", "pos/MaxEvidenceAge", "pos/DowntimeJailDuration":
		return new(time.Duration)
	case "pos/MaxValidators", "auth/MaxMemoCharacters", "auth/TxSigLimit":
		return new(uint64)
	case "pos/StakeMinimum", "pos/SignedBlocksWindow":
		return new(int64)
	case "pos/ProposerRewardPercentage":
		return new(int8)
	case "pos/StakeDenom":
		return new(string)
	case "pos/MinSignedPerWindow", "pos/SlashFractionDoubleSign", "pos/SlashFractionDowntime":
		return new(sdk.Dec)
	case "auth/FeeMultipliers":
		return new(authTypes.FeeMultipliers)
	case "gov/acl":
		return new(govTypes.ACL)
	case "gov/daoOwner":
		return new(sdk.Address)
	case "gov/upgrade":
		return new(govTypes.Upgrade)
	}
	return nil
}

// adoptParam moves an accepted parameter value into the reference model.
func (m *Model) AdoptParam(key, raw string, acctOf map[string]int) (minChanged, windowChanged bool) {
	dest := paramDest(key)
	if dest == nil {
		return
	}
	if err := appCdc.UnmarshalJSON([]byte(raw), dest); err != nil {
		m.Desync = "stored parameter " + key + " does not decode"
		return
	}
	p := &m.P
	if sd, ok := dest.(*string); ok && key == "pos/StakeDenom" && *sd != sdk.DefaultStakeDenom {
		// from here on stakes move another denomination than fees: the model keeps one account per address
		m.Desync = "the stake denomination was changed to " + *sd
		return
	}
	switch v := dest.(type) {
	case *time.Duration:
		switch key {
		case "pos/UnstakingTime":
			p.UnstakingTime = int64(*v)
		case "pos/MaxEvidenceAge":
			p.MaxEvidenceAge = int64(*v)
		case "pos/DowntimeJailDuration":
			p.JailDuration = int64(*v)
		}
	case *uint64:
		switch key {
		case "pos/MaxValidators":
			p.MaxValidators = *v
		case "auth/MaxMemoCharacters":
			p.MaxMemo = *v
		case "auth/TxSigLimit":
			p.TxSigLimit = *v
		}
	case *int64:
		switch key {
		case "pos/StakeMinimum":
			if p.StakeMinimum != *v {
				minChanged = true
			}
			p.StakeMinimum = *v
		case "pos/SignedBlocksWindow":
			if p.Window != *v {
				windowChanged = true
				p.Window = *v
			}
		}
	case *sdk.Dec:
		r := ratFromDec(v.String())
		switch key {
		case "pos/MinSignedPerWindow":
			p.MinSignedFrac = r
		case "pos/SlashFractionDoubleSign":
			p.FracDoubleSign = r
		case "pos/SlashFractionDowntime":
			p.FracDowntime = r
		}
	case *authTypes.FeeMultipliers:
		p.FeeMult = map[string]int64{}
		for _, fm := range v.FeeMultis {
			if _, dup := p.FeeMult[fm.Key]; !dup {
				p.FeeMult[fm.Key] = fm.Multiplier
			}
		}
		p.FeeDefault = v.Default
	case *govTypes.ACL:
		p.ACL = map[string]int{}
		for _, pair := range *v {
			if _, dup := p.ACL[pair.Key]; dup {
				continue // GetOwner returns the first pair
			}
			if a, ok := acctOf[hx(pair.Addr)]; ok {
				p.ACL[pair.Key] = a
			} else {
				p.ACL[pair.Key] = -1
			}
		}
	case *sdk.Address:
		if a, ok := acctOf[hx(*v)]; ok {
			p.DAOOwner = a
		} else {
			p.DAOOwner = -1
		}
	}
	return
}

func (e *Exec) adoptParam(key, raw string) {
	mc, wc := e.m.AdoptParam(key, raw, e.acctOf)
	if mc {
		e.minChanged = true
	}
	if wc && e.m.Height > 1 {
		e.windowChangedLate = true
	}
}

// ParamJSON renders a parameter value the way the governance message carries it.
func ParamJSON(v interface{}) string {
	bz, err := appCdc.MarshalJSON(v)
	if err != nil {
		panic(err)
	}
	return string(bz)
}

// ---------------------------------------------------------------- C13: enumerate crash points

func executeEnumCrash(tr *Trace) (*core.Result, error) {
	base := tr.Clone()
	base.Config.EnumCrash = false
	// 1. learn the number of write events of the target commits on replica 1
	probe := base.Clone()
	counts, res, err := executeCounting(probe)
	if err != nil {
		return nil, err
	}
	total := res
	seen := map[string]bool{}
	for _, v := range total.Violations {
		seen[v.Signature()] = true
	}
	points := 0
	var variantDigests []byte // the event logs of the crash variants are part of the run's digest (determinism self-test)
	for _, b := range tr.Config.CrashBlocks {
		if b < 0 || b >= len(base.Blocks) {
			continue
		}
		n := counts[b]
		// every write event as the death of the process and, for every other history, again as an I/O error
		variants := 1
		if tr.Seed%2 == 0 {
			variants = 2
		}
		for kv := 0; kv < n*variants; kv++ {
			k := kv % n
			v := base.Clone()
			v.Blocks[b].Faults = append(v.Blocks[b].Faults, Fault{Replica: 1, Kind: "crash_commit", K: k, Exact: true, IOErr: kv >= n})
			r, err := executeOnce(v)
			if err != nil {
				return nil, err
			}
			points++
			total.Stats.Merge(r.Stats)
			variantDigests = append(variantDigests, r.Digest...)
			if os.Getenv("VERIF_DEBUG_ENUM") != "" {
				fmt.Fprintf(os.Stderr, "ENUM block %d event %d/%d ioerr=%v digest=%s viols=%d\n", b, k, n, kv >= n, r.Digest, len(r.Violations))
			}
			for _, vi := range r.Violations {
				if !seen[vi.Signature()] {
					seen[vi.Signature()] = true
					if vi.Attrs == nil {
						vi.Attrs = map[string]string{}
					}
					total.Violations = append(total.Violations, vi)
				}
			}
		}
	}
	total.Stats.C("crash_points_enumerated", int64(points))
	total.NonTrivial = points > 0
	total.Digest = core.Digest([]byte(total.Digest), []byte(fmt.Sprint(points)), variantDigests)
	return total, nil
}

// executeCounting runs the trace and reports, per block, how many DB write events replica 1's Commit issued.
func executeCounting(tr *Trace) (map[int]int, *core.Result, error) {
	countHook = map[int]int{}
	defer func() { countHook = nil }()
	res, err := executeOnce(tr)
	out := countHook
	return out, res, err
}

var countHook map[int]int

func (e *Exec) firstHalt() string {
	for _, r := range e.reps {
		if r.halted != "" {
			return r.halted
		}
	}
	return ""
}

// checkStoreQuery (C14 through BaseApp): a /store/<name>/key query at height q returns the value
// committed at q (not the working-tree value, not another height's), and its proof verifies against
// the app hash of q. The query is issued between the transactions of block h, i.e. with uncommitted
// writes present.
func (e *Exec) checkStoreQuery(r *replica, ro *ReadOnly, key []byte, resp abci.ResponseQuery, h int64) {
	parts := strings.Split(strings.TrimPrefix(ro.Path, "/"), "/")
	if len(parts) != 3 || parts[0] != "store" || parts[2] != "key" || len(key) == 0 {
		return
	}
	name := parts[1]
	latest := h - 1 // last committed height while block h executes
	q := ro.Height
	if q == 0 {
		q = latest
	}
	cm, known := e.committed[q]
	if _, mounted := map[string]bool{"main": true, "auth": true, "pos": true, "params": true}[name]; !mounted {
		return
	}
	retained := q >= 1 && q <= latest && (q >= latest-r.cfg.Pruning.KeepRecent || (r.cfg.Pruning.KeepEvery != 0 && q%r.cfg.Pruning.KeepEvery == 0))
	attrs := map[string]string{"prove": fmt.Sprint(ro.Prove), "via": "baseapp"}
	e.res.Stats.C("store_queries_checked", 1)
	if !retained || !known {
		if len(resp.Value) != 0 {
			if known && cm[name][string(key)] == string(resp.Value) {
				return // still on disk and it IS that height's value
			}
			attrs["kind"] = "absent-height"
			e.addViol(viol("C14", "data-for-absent-height", e.step, attrs, "query %s at height %d (latest %d, pruning %s) returned a value", ro.Path, q, latest, r.cfg.Pruning))
		}
		return
	}
	if ro.Prove && q <= 1 {
		return // documented refusal
	}
	want, has := cm[name][string(key)]
	attrs["kind"] = "retained"
	if string(resp.Value) != want {
		e.addViol(viol("C14", "value-at-height", e.step, attrs, "query %s key %X at height %d returned %X, committed there: %X (present=%v); latest %d, block %d executing",
			ro.Path, key, q, resp.Value, want, has, latest, h))
		return
	}
	if has {
		e.res.Stats.Probe("store_query_present_key")
	}
	if !ro.Prove || resp.Proof == nil || len(resp.Proof.Ops) == 0 {
		return
	}
	root := r.hashes[q]
	if root == nil {
		return
	}
	prt := rootMultiProofRuntime()
	kp := "/" + name + "/x:" + hex.EncodeToString(key)
	var err error
	if has {
		err = prt.VerifyValue(resp.Proof, root, kp, []byte(want))
	} else {
		err = prt.VerifyAbsence(resp.Proof, root, kp)
	}
	if err != nil {
		msg := err.Error()
		attrs["present"] = fmt.Sprint(has)
		attrs["reason"] = "other"
		if !has && (strings.Contains(msg, "need another leaf") || strings.Contains(msg, "left over leaves") || strings.Contains(msg, "COMPUTEHASH") || strings.Contains(msg, "absence not proved")) {
			attrs["reason"] = "iavl-range-proof-absence"
		}
		e.addViol(viol("C14", "proof-verifies-at-height", e.step, attrs, "proof for %s key %X (present=%v) does not verify against the app hash of height %d: %v", ro.Path, key, has, q, err))
		return
	}
	e.res.Stats.C("store_query_proofs_verified", 1)
	for oh, oroot := range r.hashes {
		if oh != q && !bytes.Equal(oroot, root) {
			var e2 error
			if has {
				e2 = prt.VerifyValue(resp.Proof, oroot, kp, []byte(want))
			} else {
				e2 = prt.VerifyAbsence(resp.Proof, oroot, kp)
			}
			if e2 == nil {
				e.addViol(viol("C14", "proof-verifies-elsewhere", e.step, attrs, "the proof for height %d also verifies against the different app hash of height %d", q, oh))
			}
		}
	}
}

func rootMultiProofRuntime() *merkle.ProofRuntime { return rootmulti.DefaultProofRuntime() }
