package chainsim

import (
	"verifsim/core"
)

// Shrink minimises a failing trace while keep() still sees the same violation
// signature: explicit crash point, shorter history, fewer transactions,
// read-only calls, faults, evidence, missed votes and replicas.
func (Engine) Shrink(trace []byte, keep func([]byte) bool, sb core.ShrinkBudget) []byte {
	tr, err := UnmarshalTrace(trace)
	if err != nil {
		return trace
	}
	b := core.NewBudget(sb)
	try := func(c *Trace) bool {
		if b.Exhausted() {
			return false
		}
		b.Used++
		return keep(c.Marshal())
	}
	// 0. crash enumeration -> one explicit crash point
	if tr.Config.EnumCrash {
		base := tr.Clone()
		base.Config.EnumCrash = false
		counts, _, err := executeCounting(base.Clone())
		found := false
		if err == nil {
			if try(base) {
				tr, found = base, true
			}
			for _, blk := range tr.Config.CrashBlocks {
				if found || blk >= len(base.Blocks) {
					break
				}
				for k := 0; k < counts[blk] && !found; k++ {
					c := base.Clone()
					c.Blocks[blk].Faults = append(c.Blocks[blk].Faults, Fault{Replica: 1, Kind: "crash_commit", K: k, Exact: true})
					if try(c) {
						tr, found = c, true
					}
				}
			}
		}
		if !found {
			return trace
		}
		tr.Config.CrashBlocks = nil
	}
	// 1. shortest failing prefix of blocks
	lo, hi := 0, len(tr.Blocks) // invariant: prefix of length hi fails
	for lo < hi {
		mid := (lo + hi) / 2
		c := tr.Clone()
		c.Blocks = c.Blocks[:mid]
		if try(c) {
			hi = mid
		} else {
			lo = mid + 1
		}
	}
	if hi < len(tr.Blocks) {
		tr.Blocks = tr.Blocks[:hi]
	}
	// 1b. blocks in the middle (replays of transactions in removed blocks become placeholders)
	{
		n := len(tr.Blocks)
		buildB := func(k []int) *Trace {
			c := tr.Clone()
			newIdx := map[int]int{}
			var blocks []Block
			for _, i := range k {
				newIdx[i] = len(blocks)
				blocks = append(blocks, c.Blocks[i])
			}
			for bi := range blocks {
				for ti := range blocks[bi].Txs {
					t := &blocks[bi].Txs[ti]
					if t.Kind == "replay" {
						if nb, ok := newIdx[t.ReplayBlock]; ok {
							t.ReplayBlock = nb
						} else {
							*t = TxSpec{Kind: "skip"}
						}
					}
				}
			}
			c.Blocks = blocks
			if len(c.Config.CrashBlocks) > 0 {
				c.Config.CrashBlocks = nil
			}
			return c
		}
		kb := core.DDMin(n, func(k []int) bool { return try(buildB(k)) }, b)
		if len(kb) < n {
			tr = buildB(kb)
		}
	}
	// 2. replicas: fewer is simpler
	for n := 1; n < len(tr.Config.Replicas); n++ {
		c := tr.Clone()
		c.Config.Replicas = c.Config.Replicas[:n]
		dropFaultsBeyond(c, n)
		if try(c) {
			tr = c
			break
		}
	}
	if len(tr.Config.Replicas) > 2 {
		// keep replica 0 and one other
		for i := 1; i < len(tr.Config.Replicas); i++ {
			c := tr.Clone()
			c.Config.Replicas = []ReplicaCfg{tr.Config.Replicas[0], tr.Config.Replicas[i]}
			for bi := range c.Blocks {
				var fs []Fault
				for _, f := range c.Blocks[bi].Faults {
					if f.Replica == 0 {
						fs = append(fs, f)
					} else if f.Replica == i {
						f.Replica = 1
						fs = append(fs, f)
					}
				}
				c.Blocks[bi].Faults = fs
			}
			if try(c) {
				tr = c
				break
			}
		}
	}
	// 3. transactions (flattened), replaced by "skip" so that replay references stay valid
	type ref struct{ b, t int }
	var txs []ref
	for bi := range tr.Blocks {
		for ti := range tr.Blocks[bi].Txs {
			txs = append(txs, ref{bi, ti})
		}
	}
	keepIdx := core.DDMin(len(txs), func(k []int) bool {
		c := tr.Clone()
		in := map[ref]bool{}
		for _, i := range k {
			in[txs[i]] = true
		}
		for _, x := range txs {
			if !in[x] {
				c.Blocks[x.b].Txs[x.t] = TxSpec{Kind: "skip"}
			}
		}
		return try(c)
	}, b)
	{
		in := map[ref]bool{}
		for _, i := range keepIdx {
			in[txs[i]] = true
		}
		for _, x := range txs {
			if !in[x] {
				tr.Blocks[x.b].Txs[x.t] = TxSpec{Kind: "skip"}
			}
		}
	}
	// 4. read-only calls, faults, evidence, absences: per-block lists
	type item struct {
		b, i int
		kind string
	}
	var items []item
	for bi := range tr.Blocks {
		for i := range tr.Blocks[bi].ReadOnly {
			items = append(items, item{bi, i, "ro"})
		}
		for i := range tr.Blocks[bi].Faults {
			items = append(items, item{bi, i, "fault"})
		}
		for i := range tr.Blocks[bi].Evidence {
			items = append(items, item{bi, i, "ev"})
		}
		for i := range tr.Blocks[bi].Absent {
			items = append(items, item{bi, i, "abs"})
		}
	}
	build := func(k []int) *Trace {
		c := tr.Clone()
		in := map[item]bool{}
		for _, i := range k {
			in[items[i]] = true
		}
		for bi := range c.Blocks {
			blk := &c.Blocks[bi]
			var ro []ReadOnly
			for i, x := range blk.ReadOnly {
				if in[item{bi, i, "ro"}] {
					ro = append(ro, x)
				}
			}
			var fs []Fault
			for i, x := range blk.Faults {
				if in[item{bi, i, "fault"}] {
					fs = append(fs, x)
				}
			}
			var ev []Evidence
			for i, x := range blk.Evidence {
				if in[item{bi, i, "ev"}] {
					ev = append(ev, x)
				}
			}
			var ab []int
			for i, x := range blk.Absent {
				if in[item{bi, i, "abs"}] {
					ab = append(ab, x)
				}
			}
			blk.ReadOnly, blk.Faults, blk.Evidence, blk.Absent = ro, fs, ev, ab
		}
		return c
	}
	k2 := core.DDMin(len(items), func(k []int) bool { return try(build(k)) }, b)
	tr = build(k2)
	// 5. compact: remove "skip" placeholders and remap replay references
	c := compact(tr)
	if try(c) {
		tr = c
	}
	// 6. simpler clock: zero out block time steps where possible
	for bi := range tr.Blocks {
		if tr.Blocks[bi].DtNs > 1e9 {
			c := tr.Clone()
			c.Blocks[bi].DtNs = 1e9
			if try(c) {
				tr = c
			}
		}
	}
	return tr.Marshal()
}

func dropFaultsBeyond(c *Trace, n int) {
	for bi := range c.Blocks {
		var fs []Fault
		for _, f := range c.Blocks[bi].Faults {
			if f.Replica < n {
				fs = append(fs, f)
			}
		}
		c.Blocks[bi].Faults = fs
	}
}

func compact(tr *Trace) *Trace {
	c := tr.Clone()
	newIdx := map[[2]int]int{}
	for bi := range c.Blocks {
		var out []TxSpec
		for ti, t := range c.Blocks[bi].Txs {
			if t.Kind == "skip" {
				continue
			}
			newIdx[[2]int{bi, ti}] = len(out)
			out = append(out, t)
		}
		// read-only positions refer to tx indices: map to the next kept transaction
		for ri := range c.Blocks[bi].ReadOnly {
			p := c.Blocks[bi].ReadOnly[ri].Pos
			np := len(out)
			for ti := p; ti < len(c.Blocks[bi].Txs); ti++ {
				if n, ok := newIdx[[2]int{bi, ti}]; ok {
					np = n
					break
				}
			}
			c.Blocks[bi].ReadOnly[ri].Pos = np
		}
		c.Blocks[bi].Txs = out
	}
	for bi := range c.Blocks {
		for ti := range c.Blocks[bi].Txs {
			t := &c.Blocks[bi].Txs[ti]
			if t.Kind == "replay" {
				if n, ok := newIdx[[2]int{t.ReplayBlock, t.ReplayTx}]; ok {
					t.ReplayTx = n
				}
			}
		}
	}
	return c
}
