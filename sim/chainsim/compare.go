package chainsim

import (
	"fmt"
	"math/big"
	"sort"

	sdk "github.com/pokt-network/posmint/types"

	"verifsim/core"
)

// Layer B: the application's state must equal the reference model's after
// every ABCI call. A difference is attributed to the property that speaks about
// the field that differs in the phase where it first differs.

func specialKey(i int) (string, bool) {
	switch i {
	case AcctPool:
		return ModPool, true
	case AcctFee:
		return ModFee, true
	case AcctDAO:
		return ModDAO, true
	case AcctPos:
		return ModPos, true
	}
	return "", false
}

func (e *Exec) addrOfKey(k string) string {
	switch k {
	case ModFee:
		return moduleAddrHex("fee_collector")
	case ModPool:
		return moduleAddrHex("staked_tokens_pool")
	case ModPos:
		return moduleAddrHex("pos")
	case ModDAO:
		return moduleAddrHex("dao")
	}
	var i int
	fmt.Sscanf(k, "A%d", &i)
	return hx(e.kr.Get(i).Addr)
}

func balanceProp(phase, txKind, key string) string {
	switch phase {
	case "InitChain":
		if key == ModPool {
			return "C04"
		}
		return "C02"
	case "BeginBlock":
		if key == ModPool {
			if txKind == "slashes" {
				return "C07"
			}
			return "C04"
		}
		return "C10"
	case "EndBlock":
		return "C06"
	case "DeliverTx":
		switch txKind {
		case "stake", "unstake", "unjail":
			if key == ModFee {
				return "C03"
			}
			return "C04"
		case "dao_transfer", "dao_burn":
			if key == ModFee {
				return "C03"
			}
			return "C17"
		case "send":
			if key == ModFee {
				return "C03"
			}
			return "C02"
		default:
			return "C03"
		}
	}
	return "C02"
}

func (e *Exec) CompareState(st *AppState, phase, txKind string, step int) []core.Violation {
	m := e.m
	if m.Desync != "" {
		return nil
	}
	var out []core.Violation
	add := func(prop, oracle string, attrs map[string]string, f string, a ...interface{}) {
		if attrs == nil {
			attrs = map[string]string{}
		}
		attrs["phase"] = phase
		if txKind != "" {
			attrs["tx"] = txKind
		}
		out = append(out, viol(prop, oracle, step, attrs, f, a...))
	}
	// supply
	if st.Supply != nil && st.Supply.Cmp(m.Supply) != 0 {
		add("C02", "supply-vs-model", nil, "recorded supply %s, reference model %s (diff %s)", st.Supply, m.Supply, new(big.Int).Sub(st.Supply, m.Supply))
		m.Supply.Set(st.Supply) // follow the application: only new divergences are reported later
	}
	// balances
	seen := map[string]bool{}
	keys := make([]string, 0, len(m.Bal))
	for k := range m.Bal {
		keys = append(keys, k)
	}
	sort.Strings(keys)
	for _, k := range keys {
		ah := e.addrOfKey(k)
		seen[ah] = true
		got := st.Balances[ah]
		if got == nil {
			got = new(big.Int)
		}
		if got.Cmp(m.Bal[k]) != 0 {
			who := "account"
			switch k {
			case ModFee, ModPool, ModPos, ModDAO:
				who = k
			}
			prop := balanceProp(phase, txKind, k)
			attrs := map[string]string{"who": who}
			if phase == "BeginBlock" && e.awardedNow[k] {
				// this holder received an award in this BeginBlock: "exactly the sum of the queued amounts ... minted to that address"
				prop = "C10"
				attrs["award_recipient"] = "true"
			}
			add(prop, "balance-vs-model", attrs,
				"balance of %s (%s) is %s, reference model says %s (diff %s)", k, ah, got, m.Bal[k], new(big.Int).Sub(got, m.Bal[k]))
			m.Bal[k] = new(big.Int).Set(got)
		}
	}
	for ah, b := range st.Balances {
		if !seen[ah] && b.Sign() != 0 && e.unknownBal[ah] != b.String() {
			e.unknownBal[ah] = b.String()
			add(balanceProp(phase, txKind, ""), "balance-vs-model", map[string]string{"who": "unknown-address"}, "address %s holds %s but the model knows no such holder", ah, b)
		}
	}
	// second denomination (moves only as part of a fee)
	dkeys := make([]string, 0, len(m.Dust))
	for k := range m.Dust {
		dkeys = append(dkeys, k)
	}
	sort.Strings(dkeys)
	for _, k := range dkeys {
		ah := e.addrOfKey(k)
		got := st.Dust[ah]
		if got == nil {
			got = new(big.Int)
		}
		if got.Cmp(m.Dust[k]) != 0 {
			prop := "C03"
			if phase == "BeginBlock" {
				prop = "C10"
			}
			add(prop, "balance-vs-model", map[string]string{"who": "second-denomination"}, "second-denomination balance of %s is %s, reference model says %s", k, got, m.Dust[k])
			m.Dust[k] = new(big.Int).Set(got)
		}
	}
	// validators
	statusProp := map[string]string{"InitChain": "C06", "BeginBlock": "C07", "DeliverTx": "C06", "EndBlock": "C06", "Commit": "C06"}[phase]
	stakeProp := map[string]string{"InitChain": "C04", "BeginBlock": "C07", "DeliverTx": "C04", "EndBlock": "C06", "Commit": "C04"}[phase]
	jailProp := "C09"
	accts := make([]int, 0, len(m.Vals))
	for a := range m.Vals {
		accts = append(accts, a)
	}
	sort.Ints(accts)
	mAddrs := map[string]bool{}
	for _, a := range accts {
		mv := m.Vals[a]
		ah := hx(e.kr.Get(a).Addr)
		mAddrs[ah] = true
		av, ok := st.Vals[ah]
		if !ok {
			add(statusProp, "validator-vs-model", map[string]string{"what": "missing-record"}, "validator A%d has no record but the model has it as status %d", a, mv.Status)
			delete(m.Vals, a)
			continue
		}
		if int(av.Status) != mv.Status {
			add(statusProp, "validator-vs-model", map[string]string{"what": "status"}, "validator A%d has status %s, model says %d", a, av.Status, mv.Status)
			mv.Status = int(av.Status)
			mv.Completion = av.UnstakingCompletionTime.UnixNano()
		}
		if av.Jailed != mv.Jailed {
			add(jailProp, "validator-vs-model", map[string]string{"what": "jailed"}, "validator A%d jailed=%v, model says %v", a, av.Jailed, mv.Jailed)
			mv.Jailed = av.Jailed
		}
		if av.StakedTokens.BigInt().Cmp(mv.Stake) != 0 {
			add(stakeProp, "validator-vs-model", map[string]string{"what": "stake"}, "validator A%d records stake %s, model says %s (diff %s)", a, av.StakedTokens, mv.Stake,
				new(big.Int).Sub(av.StakedTokens.BigInt(), mv.Stake))
			mv.Stake = new(big.Int).Set(av.StakedTokens.BigInt())
		}
		if mv.Status == StUnstaking && av.Status == sdk.Unstaking && av.UnstakingCompletionTime.UnixNano() != mv.Completion {
			add("C06", "validator-vs-model", map[string]string{"what": "completion-time"}, "validator A%d completes unstaking at %d, model says %d", a, av.UnstakingCompletionTime.UnixNano(), mv.Completion)
			mv.Completion = av.UnstakingCompletionTime.UnixNano()
		}
	}
	extra := make([]string, 0)
	for ah := range st.Vals {
		if !mAddrs[ah] {
			extra = append(extra, ah)
		}
	}
	sort.Strings(extra)
	for _, ah := range extra {
		av := st.Vals[ah]
		if e.unknownBal["val:"+ah] != "" {
			continue
		}
		add(statusProp, "validator-vs-model", map[string]string{"what": "extra-record"}, "validator record %s (status %s) exists but the model has none", ah, av.Status)
		if a, ok := e.acctOf[ah]; ok {
			m.Vals[a] = &MVal{Acct: a, Status: int(av.Status), Jailed: av.Jailed, Stake: new(big.Int).Set(av.StakedTokens.BigInt()),
				Completion: av.UnstakingCompletionTime.UnixNano(), Consensus: true}
			m.EverVal[a] = true
		} else {
			e.unknownBal["val:"+ah] = "reported"
		}
	}
	// signing infos
	signAccts := make([]int, 0, len(m.Sign))
	for a := range m.Sign {
		signAccts = append(signAccts, a)
	}
	sort.Ints(signAccts)
	for _, a := range signAccts {
		ms := m.Sign[a]
		ah := hx(e.kr.Get(a).Addr)
		si, ok := st.Sign[ah]
		if !ok {
			add("C08", "signing-vs-model", map[string]string{"what": "missing"}, "no signing info for A%d", a)
			delete(m.Sign, a)
			continue
		}
		if si.Tombstoned != ms.Tombstoned {
			add("C09", "signing-vs-model", map[string]string{"what": "tombstoned"}, "A%d tombstoned=%v, model %v", a, si.Tombstoned, ms.Tombstoned)
			ms.Tombstoned = si.Tombstoned
		}
		if !ms.WindowTouched && !e.windowChangedLate {
			if got, want := si.MissedBlocksCounter, m.missedInWindow(ms); got != want {
				add("C08", "signing-vs-model", map[string]string{"what": "counter"}, "A%d missed-blocks counter %d, model (misses among its last %d expected blocks) %d", a, got, m.P.Window, want)
				ms.WindowTouched = true // this validator's window is no longer followed
			}
		}
		if ms.Forever {
			if si.JailedUntil.Unix() != 253402300799 {
				add("C09", "signing-vs-model", map[string]string{"what": "jailed-until"}, "A%d is tombstoned but jailed-until is %s", a, si.JailedUntil)
				ms.Forever = false
				ms.JailedUntil = si.JailedUntil.UnixNano()
			}
		} else if ms.JailedUntil != 0 && si.JailedUntil.UnixNano() != ms.JailedUntil {
			add("C09", "signing-vs-model", map[string]string{"what": "jailed-until"}, "A%d jailed-until %d, model %d", a, si.JailedUntil.UnixNano(), ms.JailedUntil)
			ms.JailedUntil = si.JailedUntil.UnixNano()
		}
	}
	// queues
	if st.AwardsOpaque || st.BurnsOpaque {
		// queue values in a form this harness does not know: the amounts are checked when they are minted / burned
		// (balances, supply), the number of entries still is
		e.res.Stats.Probe("queue_values_opaque")
		if st.AwardsOpaque && st.AwardCount != len(m.Awards) {
			add("C10", "award-queue-vs-model", map[string]string{"what": "size"}, "award queue has %d entries, model %d", st.AwardCount, len(m.Awards))
		}
		if st.BurnsOpaque && st.BurnCount != len(m.Burns) {
			add("C07", "burn-queue-vs-model", map[string]string{"what": "size"}, "burn queue has %d entries, model %d", st.BurnCount, len(m.Burns))
		}
		return out
	}
	awardBad := len(st.Awards) != len(m.Awards)
	for _, a := range sortedInts(m.Awards) {
		amt := m.Awards[a]
		got := st.Awards[hx(e.kr.Get(a).Addr)]
		if got == nil || got.Cmp(amt) != 0 {
			add("C10", "award-queue-vs-model", nil, "award queued for A%d is %v, model %s", a, got, amt)
			awardBad = true
		}
	}
	if len(st.Awards) != len(m.Awards) {
		add("C10", "award-queue-vs-model", map[string]string{"what": "size"}, "award queue has %d entries, model %d", len(st.Awards), len(m.Awards))
	}
	if awardBad {
		m.Awards = map[int]*big.Int{}
		for ah, amt := range st.Awards {
			if a, ok := e.acctOf[ah]; ok {
				m.Awards[a] = new(big.Int).Set(amt)
			}
		}
	}
	if len(st.Burns) != len(m.Burns) {
		add("C07", "burn-queue-vs-model", map[string]string{"what": "size"}, "burn queue has %d entries, model %d", len(st.Burns), len(m.Burns))
		m.Burns = map[int]*big.Rat{}
		for ah, sev := range st.Burns {
			if a, ok := e.acctOf[ah]; ok {
				m.Burns[a] = ratFromDec(sev)
			}
		}
	}
	return out
}
