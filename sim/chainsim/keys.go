package chainsim

import (
	"crypto/sha256"
	"math/big"

	"github.com/btcsuite/btcd/btcec"
	"encoding/binary"

	tmed "github.com/tendermint/tendermint/crypto/ed25519"
	tmsecp "github.com/tendermint/tendermint/crypto/secp256k1"

	"github.com/pokt-network/posmint/crypto"
	sdk "github.com/pokt-network/posmint/types"
	authTypes "github.com/pokt-network/posmint/x/auth/types"
)

// Keyring derives every key of a run from (keySeed, account index): the
// application never generates keys, so crypto/rand plays no part in a run.
type Keyring struct {
	seed  uint64
	types []string
	cache map[int]*Account
}

type Account struct {
	Index int
	Type  string // ed | secp | multi2 | multi3 | nested
	Priv  crypto.PrivateKey   // nil for multisig accounts
	Subs  []*Account          // multisig components
	Pub   crypto.PublicKey
	Addr  sdk.Address
}

func NewKeyring(seed uint64, types []string) *Keyring {
	return &Keyring{seed: seed, types: types, cache: map[int]*Account{}}
}

func (k *Keyring) secret(idx int, sub int) []byte {
	var b [24]byte
	binary.BigEndian.PutUint64(b[0:], k.seed)
	binary.BigEndian.PutUint64(b[8:], uint64(int64(idx)))
	binary.BigEndian.PutUint64(b[16:], uint64(int64(sub)))
	h := sha256.Sum256(b[:])
	return h[:]
}

func (k *Keyring) typeOf(idx int) string {
	if idx >= 0 && idx < len(k.types) && k.types[idx] != "" {
		return k.types[idx]
	}
	return "ed"
}

func (k *Keyring) single(idx, sub int, typ string) *Account {
	a := &Account{Index: idx, Type: typ}
	switch typ {
	case "secp":
		p := tmsecp.GenPrivKeySecp256k1(k.secret(idx, sub))
		a.Priv = crypto.Secp256k1PrivateKey(p)
	default:
		p := tmed.GenPrivKeyFromSecret(k.secret(idx, sub))
		a.Priv = crypto.Ed25519PrivateKey(p)
	}
	a.Pub = a.Priv.PublicKey()
	a.Addr = sdk.Address(a.Pub.Address())
	return a
}

// Special account indices naming the module accounts (they hold funds but have no key).
const (
	AcctPool = 9001
	AcctFee  = 9002
	AcctDAO  = 9003
	AcctPos  = 9004
	// recipients whose address is not 20 bytes long (legal: messages only require a non-empty address)
	AcctLong  = 9011
	AcctShort = 9012
)

// Get returns the account with index idx (negative indices are "strangers":
// valid keys that own nothing).
func (k *Keyring) Get(idx int) *Account {
	if a, ok := k.cache[idx]; ok {
		return a
	}
	if name, ok := map[int]string{AcctPool: "staked_tokens_pool", AcctFee: "fee_collector", AcctDAO: "dao", AcctPos: "pos"}[idx]; ok {
		// a key that exists only so that "signing as the module" produces a (wrong) signature
		a := k.single(idx, 0, "ed")
		a.Type = "module"
		a.Addr = sdk.Address(authTypes.NewModuleAddress(name))
		k.cache[idx] = a
		return a
	}
	if idx == AcctLong || idx == AcctShort {
		a := k.single(idx, 0, "ed")
		a.Type = "odd-address"
		if idx == AcctLong {
			a.Addr = sdk.Address(append(append([]byte{}, a.Addr...), []byte("-long-address")...))
		} else {
			a.Addr = sdk.Address(append([]byte{}, a.Addr[:4]...))
		}
		k.cache[idx] = a
		return a
	}
	typ := k.typeOf(idx)
	var a *Account
	switch typ {
	case "multi2", "multi3", "nested":
		n := 2
		if typ == "multi3" {
			n = 3
		}
		a = &Account{Index: idx, Type: typ}
		var pubs []crypto.PublicKey
		for s := 0; s < n; s++ {
			st := "ed"
			if s == 1 {
				st = "secp"
			}
			sub := k.single(idx, s+1, st)
			a.Subs = append(a.Subs, sub)
			pubs = append(pubs, sub.Pub)
		}
		if typ == "nested" {
			// second component is itself a 2-key multisig
			in := &Account{Index: idx, Type: "multi2"}
			var ip []crypto.PublicKey
			for s := 0; s < 2; s++ {
				sub := k.single(idx, 10+s, "ed")
				in.Subs = append(in.Subs, sub)
				ip = append(ip, sub.Pub)
			}
			in.Pub = crypto.PublicKeyMultiSignature{PublicKeys: ip}
			in.Addr = sdk.Address(in.Pub.Address())
			a.Subs[1] = in
			pubs[1] = in.Pub
		}
		a.Pub = crypto.PublicKeyMultiSignature{PublicKeys: pubs}
		a.Addr = sdk.Address(a.Pub.Address())
	default:
		a = k.single(idx, 0, typ)
	}
	k.cache[idx] = a
	return a
}

// Sign signs msg with the account's key(s): multisig accounts produce an
// N-of-N positional multisignature, recursively.
func (a *Account) Sign(msg []byte) []byte {
	if a.Priv != nil {
		s, err := a.Priv.Sign(msg)
		if err != nil {
			panic(err)
		}
		return s
	}
	ms := crypto.MultiSignature{}
	for _, sub := range a.Subs {
		ms.Sigs = append(ms.Sigs, sub.Sign(msg))
	}
	return ms.Marshal()
}

func (a *Account) IsMulti() bool { return a.Priv == nil }

// secpSignWithNonce is ECDSA on secp256k1 over SHA-256(msg) with a caller-chosen nonce, in lower-S form:
// a second (third, ...) valid signature by the same key for the same message, with other bytes.
func secpSignWithNonce(priv crypto.Secp256k1PrivateKey, msg []byte, nonce int64) []byte {
	curve := btcec.S256()
	n := curve.N
	d := new(big.Int).SetBytes(priv[:])
	zh := sha256.Sum256(msg)
	z := new(big.Int).SetBytes(zh[:])
	kh := sha256.Sum256(append(append([]byte{}, priv[:]...), byte(nonce), byte(nonce>>8), 'k'))
	k := new(big.Int).SetBytes(kh[:])
	k.Mod(k, new(big.Int).Sub(n, big.NewInt(1)))
	k.Add(k, big.NewInt(1))
	rx, _ := curve.ScalarBaseMult(k.Bytes())
	r := new(big.Int).Mod(rx, n)
	kinv := new(big.Int).ModInverse(k, n)
	sv := new(big.Int).Mul(r, d)
	sv.Add(sv, z)
	sv.Mul(sv, kinv)
	sv.Mod(sv, n)
	if sv.Cmp(new(big.Int).Rsh(n, 1)) > 0 {
		sv.Sub(n, sv)
	}
	out := make([]byte, 64)
	rb, sb := r.Bytes(), sv.Bytes()
	copy(out[32-len(rb):32], rb)
	copy(out[64-len(sb):64], sb)
	return out
}

// SignAllSlotsBy: every position of the (top-level) multisignature is filled with a different valid signature
// made by ONE member key (the first secp256k1 member; nil if there is none): the other members did not sign.
func (a *Account) SignAllSlotsBy(msg []byte) []byte {
	if a.Priv != nil {
		return nil
	}
	var signer *crypto.Secp256k1PrivateKey
	for _, sub := range a.Subs {
		if p, ok := sub.Priv.(crypto.Secp256k1PrivateKey); ok && signer == nil {
			pp := p
			signer = &pp
		}
	}
	if signer == nil {
		return nil
	}
	ms := crypto.MultiSignature{}
	for i := range a.Subs {
		ms.Sigs = append(ms.Sigs, secpSignWithNonce(*signer, msg, int64(i+1)))
	}
	return ms.Marshal()
}

// SignShort is Sign with one signature left out of the innermost multisignature (a nested component if there is
// one, the top level otherwise): somebody did not sign.
func (a *Account) SignShort(msg []byte) []byte {
	if a.Priv != nil {
		return a.Sign(msg)
	}
	ms := crypto.MultiSignature{}
	nested := -1
	for i, sub := range a.Subs {
		if sub.IsMulti() {
			nested = i
		}
	}
	for i, sub := range a.Subs {
		switch {
		case i == nested:
			ms.Sigs = append(ms.Sigs, sub.SignShort(msg))
		case nested < 0 && i == len(a.Subs)-1:
			// left out
		default:
			ms.Sigs = append(ms.Sigs, sub.Sign(msg))
		}
	}
	return ms.Marshal()
}
