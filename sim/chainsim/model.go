package chainsim

import (
	"bytes"
	"fmt"
	"math/big"
	"sort"
)

// The reference model: written from the property statements with exact
// math/big arithmetic. It follows the implementation only in what the
// statements leave open and the code documents: the order inside BeginBlock
// (fees -> awards -> burns -> proposer -> votes -> evidence) and EndBlock
// (validator updates before maturities).

const (
	StUnstaked  = 0
	StUnstaking = 1
	StStaked    = 2
)

var (
	big0       = big.NewInt(0)
	powerRed   = big.NewInt(1000000)
)

const (
	ModFee  = "M:fee_collector"
	ModPool = "M:staked_tokens_pool"
	ModPos  = "M:pos"
	ModDAO  = "M:dao"
)

func acctKey(i int) string {
	if k, ok := specialKey(i); ok {
		return k
	}
	return fmt.Sprintf("A%d", i)
}

type MParams struct {
	UnstakingTime  int64 // ns
	MaxValidators  uint64
	StakeMinimum   int64
	MaxEvidenceAge int64
	Window         int64
	MinSignedFrac  *big.Rat
	JailDuration   int64
	FracDoubleSign *big.Rat
	FracDowntime   *big.Rat
	MaxMemo        uint64
	TxSigLimit     uint64
	FeeMult        map[string]int64
	FeeDefault     int64
	ACL            map[string]int // param key -> owning account (-1: nobody)
	DAOOwner       int
}

type MVal struct {
	Acct       int
	Status     int
	Jailed     bool
	Stake      *big.Int
	Completion int64 // unix ns
	Consensus  bool  // key type usable in consensus (ed25519)
}

type MSign struct {
	Start       int64
	Outcomes    []bool // missed? for every block it was expected to sign since the last reset
	JailedUntil int64  // unix ns
	Forever     bool   // jailed until the end of time (tombstone)
	Tombstoned  bool
	WindowTouched bool // the window size changed while outcomes were recorded: C08 expectations are off
}

type Model struct {
	Bal      map[string]*big.Int
	Dust     map[string]*big.Int // balances in the second denomination
	Supply   *big.Int
	Vals     map[int]*MVal
	Sign     map[int]*MSign
	EverVal  map[int]bool // accounts that were ever registered as validator (address -> pubkey relation exists)
	Awards   map[int]*big.Int
	Burns    map[int]*big.Rat
	PrevProposer int // account index, -1 unknown address
	P        MParams
	Height   int64
	Time     int64
	PoolGifts *big.Int
	TxIndex  map[string]bool
	Desync   string // non-empty: model gave up following (reason); layer-B comparisons stop
	// KeyOnRecord: accounts whose public key is stored with the account (those of the genesis file; nothing in
	// the code records a key later)
	KeyOnRecord map[int]bool
	kr       *Keyring
}

func ratFromDec(s string) *big.Rat {
	r, ok := new(big.Rat).SetString(s)
	if !ok {
		return new(big.Rat)
	}
	return r
}

func DefaultMParams() MParams {
	return MParams{
		UnstakingTime:  int64(21*24) * 3600 * 1e9,
		MaxValidators:  100000,
		StakeMinimum:   1000000,
		MaxEvidenceAge: 120 * 1e9,
		Window:         100,
		MinSignedFrac:  big.NewRat(1, 2),
		JailDuration:   600 * 1e9,
		FracDoubleSign: big.NewRat(1, 20),
		FracDowntime:   big.NewRat(1, 100),
		MaxMemo:        256,
		TxSigLimit:     7,
		FeeMult:        map[string]int64{},
		FeeDefault:     1,
		ACL:            map[string]int{},
	}
}

var AllParamKeys = []string{
	"auth/MaxMemoCharacters", "auth/TxSigLimit", "auth/FeeMultipliers",
	"gov/acl", "gov/daoOwner", "gov/upgrade",
	"pos/UnstakingTime", "pos/MaxValidators", "pos/StakeDenom", "pos/StakeMinimum", "pos/ProposerRewardPercentage",
	"pos/MaxEvidenceAge", "pos/SignedBlocksWindow", "pos/MinSignedPerWindow", "pos/DowntimeJailDuration",
	"pos/SlashFractionDoubleSign", "pos/SlashFractionDowntime",
}

func NewModel(kr *Keyring, g *Genesis) *Model {
	m := &Model{Dust: map[string]*big.Int{}, Bal: map[string]*big.Int{}, Supply: new(big.Int), Vals: map[int]*MVal{}, Sign: map[int]*MSign{},
		EverVal: map[int]bool{}, Awards: map[int]*big.Int{}, Burns: map[int]*big.Rat{}, P: DefaultMParams(),
		PoolGifts: new(big.Int), TxIndex: map[string]bool{}, kr: kr}
	m.KeyOnRecord = map[int]bool{}
	for i, b := range g.Balances {
		m.KeyOnRecord[i] = !g.outside(i)
		m.Bal[acctKey(i)] = big.NewInt(b)
		if d := g.EffectiveDust(i); d > 0 {
			m.Dust[acctKey(i)] = big.NewInt(d)
		}
	}
	for _, k := range []string{ModFee, ModPool, ModPos, ModDAO} {
		m.Bal[k] = new(big.Int)
	}
	for _, v := range g.Validators {
		st := StStaked
		if v.Unstaking {
			st = StUnstaking
		}
		m.Vals[v.Acct] = &MVal{Acct: v.Acct, Status: st, Stake: big.NewInt(v.Stake), Consensus: kr.Get(v.Acct).Type == "ed",
			Completion: g.TimeUnix*1e9 + v.UnstakeIn}
		m.EverVal[v.Acct] = true
		m.Sign[v.Acct] = &MSign{Start: 0}
		// the pool backs staked and unstaking validators one-for-one in a consistent genesis
		m.Bal[ModPool].Add(m.Bal[ModPool], big.NewInt(v.Stake))
	}
	for _, si := range g.SigningInfos {
		s := &MSign{Start: si.StartHeight, JailedUntil: si.JailedUntil}
		// reconstruct outcomes from the exported ring (offset entries, missed at the listed indices)
		n := si.IndexOffset
		s.Outcomes = make([]bool, n)
		for _, idx := range si.Missed {
			if int64(idx) < n {
				s.Outcomes[idx] = true
			}
		}
		m.Sign[si.Acct] = s
	}
	m.Bal[ModDAO] = big.NewInt(g.DAOTokens)
	for _, b := range m.Bal {
		m.Supply.Add(m.Supply, b)
	}
	for _, k := range AllParamKeys {
		m.P.ACL[k] = g.ParamOwner
	}
	for k, o := range g.ACLOverride {
		m.P.ACL[k] = o
	}
	m.P.DAOOwner = g.DAOOwner
	m.PrevProposer = g.PrevProposer
	m.Time = g.TimeUnix * 1e9
	return m
}

func (m *Model) bal(k string) *big.Int {
	b, ok := m.Bal[k]
	if !ok {
		b = new(big.Int)
		m.Bal[k] = b
	}
	return b
}

func (m *Model) dust(k string) *big.Int {
	b, ok := m.Dust[k]
	if !ok {
		b = new(big.Int)
		m.Dust[k] = b
	}
	return b
}

func (m *Model) move(from, to string, amt *big.Int) {
	m.bal(from).Sub(m.bal(from), amt)
	m.bal(to).Add(m.bal(to), amt)
}

func (m *Model) RequiredFee(msgType string, base int64) *big.Int {
	mult, ok := m.P.FeeMult[msgType]
	if !ok {
		mult = m.P.FeeDefault
	}
	return new(big.Int).Mul(big.NewInt(base), big.NewInt(mult))
}

func (v *MVal) Power() int64 {
	return new(big.Int).Quo(v.Stake, powerRed).Int64()
}

// MinSigned = round-half-even(fraction * window).
func (m *Model) MinSigned() int64 {
	x := new(big.Rat).Mul(m.P.MinSignedFrac, big.NewRat(m.P.Window, 1))
	return roundHalfEven(x)
}

func roundHalfEven(x *big.Rat) int64 {
	fl := new(big.Int).Quo(x.Num(), x.Denom()) // x >= 0 here
	rem := new(big.Rat).Sub(x, new(big.Rat).SetInt(fl))
	c := rem.Cmp(big.NewRat(1, 2))
	switch {
	case c < 0:
		return fl.Int64()
	case c > 0:
		return fl.Int64() + 1
	default:
		if fl.Bit(0) == 0 {
			return fl.Int64()
		}
		return fl.Int64() + 1
	}
}

func truncRat(x *big.Rat) *big.Int {
	return new(big.Int).Quo(x.Num(), x.Denom())
}

// ---------------------------------------------------------------- slashing

type SlashRecord struct {
	Acct    int
	Cause   string // burn | downtime | double_sign
	Burned  *big.Int
	Forced  bool
	Status  int // status before
}

// slash applies the C07 rule and returns what was burned.
func (m *Model) slash(acct int, power int64, frac *big.Rat, cause string) *SlashRecord {
	v, ok := m.Vals[acct]
	if !ok || v.Status == StUnstaked {
		return &SlashRecord{Acct: acct, Cause: cause, Burned: new(big.Int), Status: -1}
	}
	rec := &SlashRecord{Acct: acct, Cause: cause, Status: v.Status}
	want := truncRat(new(big.Rat).Mul(new(big.Rat).SetInt(new(big.Int).Mul(big.NewInt(power), powerRed)), frac))
	if want.Cmp(v.Stake) > 0 {
		want = new(big.Int).Set(v.Stake)
	}
	if want.Sign() < 0 {
		want = new(big.Int)
	}
	rec.Burned = want
	if want.Sign() == 0 {
		return rec
	}
	v.Stake.Sub(v.Stake, want)
	m.bal(ModPool).Sub(m.bal(ModPool), want)
	m.Supply.Sub(m.Supply, want)
	if v.Stake.Cmp(big.NewInt(m.P.StakeMinimum)) < 0 {
		m.forceUnstake(v, rec)
	}
	return rec
}

func (m *Model) forceUnstake(v *MVal, rec *SlashRecord) {
	rest := new(big.Int).Set(v.Stake)
	m.bal(ModPool).Sub(m.bal(ModPool), rest)
	m.Supply.Sub(m.Supply, rest)
	rec.Burned = new(big.Int).Add(rec.Burned, rest)
	rec.Forced = true
	v.Stake = new(big.Int)
	v.Status = StUnstaked
}

// ---------------------------------------------------------------- BeginBlock

type Vote struct {
	Acct   int
	Power  int64
	Signed bool
}

type EvidenceIn struct {
	Acct   int // -1 unknown address
	Height int64
	Time   int64
	Power  int64
}

type BBExpect struct {
	FeesPaid    *big.Int
	FeesTo      int // account index, -1 = stays in pos module account
	AwardsMinted map[int]*big.Int
	Slashes     []*SlashRecord
	DowntimeJailed []int
	Tombstoned  []int
	// ExpectHalt: the statement-level model cannot continue (evidence the code is documented to panic on)
	ExpectHalt string
}

func (m *Model) BeginBlock(h int64, t int64, proposer int, votes []Vote, evs []EvidenceIn) *BBExpect {
	m.Height, m.Time = h, t
	e := &BBExpect{FeesPaid: new(big.Int), FeesTo: -1, AwardsMinted: map[int]*big.Int{}}
	// 1. fees of the previous block to its proposer
	if h > 1 {
		f := new(big.Int).Set(m.bal(ModFee))
		e.FeesPaid = f
		m.move(ModFee, ModPos, f)
		// coins of other denominations follow into the pos module account and stay there
		if d := m.dust(ModFee); d.Sign() > 0 {
			m.dust(ModPos).Add(m.dust(ModPos), d)
			m.Dust[ModFee] = new(big.Int)
		}
		if _, ok := m.Vals[m.PrevProposer]; ok && m.PrevProposer >= 0 {
			m.move(ModPos, acctKey(m.PrevProposer), f)
			e.FeesTo = m.PrevProposer
		}
	}
	// 2. awards
	for _, a := range sortedInts(m.Awards) {
		amt := m.Awards[a]
		m.bal(acctKey(a)).Add(m.bal(acctKey(a)), amt)
		m.Supply.Add(m.Supply, amt)
		e.AwardsMinted[a] = amt
	}
	m.Awards = map[int]*big.Int{}
	// 3. burns
	// the queue is a store prefix: entries come in address order
	burnOrder := sortedIntsR(m.Burns)
	sort.Slice(burnOrder, func(i, j int) bool {
		return bytes.Compare(m.kr.Get(burnOrder[i]).Addr, m.kr.Get(burnOrder[j]).Addr) < 0
	})
	for _, a := range burnOrder {
		v, ok := m.Vals[a]
		if !ok {
			e.ExpectHalt = "burn-of-removed-validator"
			m.Burns = map[int]*big.Rat{}
			return e
		}
		p := int64(0)
		if v.Status == StStaked {
			p = v.Power()
		}
		e.Slashes = append(e.Slashes, m.slash(a, p, m.Burns[a], "burn"))
	}
	m.Burns = map[int]*big.Rat{}
	// 4. proposer
	m.PrevProposer = proposer
	// 5. votes
	for _, vt := range votes {
		s, ok := m.Sign[vt.Acct]
		if !ok {
			e.ExpectHalt = "vote-without-signing-info"
			return e
		}
		s.Outcomes = append(s.Outcomes, !vt.Signed)
		missed := m.missedInWindow(s)
		maxMissed := m.P.Window - m.MinSigned()
		if h > s.Start+m.P.Window && missed > maxMissed {
			v, ok := m.Vals[vt.Acct]
			if ok && !v.Jailed {
				e.Slashes = append(e.Slashes, m.slash(vt.Acct, vt.Power, m.P.FracDowntime, "downtime"))
				v.Jailed = true
				s.JailedUntil = t + m.P.JailDuration
				s.Outcomes = nil
				e.DowntimeJailed = append(e.DowntimeJailed, vt.Acct)
			}
		}
	}
	// 6. evidence
	for _, ev := range evs {
		if ev.Acct < 0 || !m.EverVal[ev.Acct] {
			e.ExpectHalt = "evidence-unknown-key"
			return e
		}
		if t-ev.Time > m.P.MaxEvidenceAge {
			continue // outside the window: burns nothing
		}
		v, ok := m.Vals[ev.Acct]
		if !ok || v.Status == StUnstaked {
			e.ExpectHalt = "evidence-unstaked-or-unknown"
			return e
		}
		s, ok := m.Sign[ev.Acct]
		if !ok {
			e.ExpectHalt = "evidence-no-signing-info"
			return e
		}
		if s.Tombstoned {
			e.ExpectHalt = "evidence-tombstoned"
			return e
		}
		rec := m.slash(ev.Acct, ev.Power, m.P.FracDoubleSign, "double_sign")
		v.Jailed = true
		if v.Status != StUnstaked {
			m.forceUnstake(v, rec)
		}
		e.Slashes = append(e.Slashes, rec)
		s.Tombstoned = true
		s.Forever = true
		e.Tombstoned = append(e.Tombstoned, ev.Acct)
	}
	return e
}

func (m *Model) missedInWindow(s *MSign) int64 {
	n := int64(len(s.Outcomes))
	from := int64(0)
	if n > m.P.Window {
		from = n - m.P.Window
	}
	c := int64(0)
	for _, x := range s.Outcomes[from:] {
		if x {
			c++
		}
	}
	return c
}

func sortedInts(mm map[int]*big.Int) []int {
	ks := make([]int, 0, len(mm))
	for k := range mm {
		ks = append(ks, k)
	}
	sort.Ints(ks)
	return ks
}
func sortedIntsR(mm map[int]*big.Rat) []int {
	ks := make([]int, 0, len(mm))
	for k := range mm {
		ks = append(ks, k)
	}
	sort.Ints(ks)
	return ks
}

// ---------------------------------------------------------------- transactions

type TxPrediction struct {
	// MustReject: the statement forbids acceptance by the ante handler (C03).
	MustReject   bool
	RejectReason string
	RejectProp   string
	// AnteOK: the model expects the ante handler to accept.
	AnteOK bool
	// HandlerMustFail: if the ante handler accepts, the message must still be refused (C06 / C09 / C17).
	HandlerMustFail bool
	HandlerReason   string
	HandlerProp     string
	// NoClaim: the model has no expectation at all about acceptance (mutated raw bytes that happen to decode).
	NoClaim bool
}

func (m *Model) PredictTx(f *TxFacts) TxPrediction {
	var p TxPrediction
	s := f.Spec
	if m.TxIndex[f.Hash] && len(f.Bytes) > 0 && (s.Kind == "raw" || s.Kind == "replay" || !f.Decodable) {
		// whatever these bytes are - also a non-canonical encoding the decoder tolerates -, the index has them
		p.MustReject, p.RejectReason, p.RejectProp = true, "replay-of-indexed-tx", "C03"
		return p
	}
	if s.Kind == "raw" || s.Kind == "replay" || !f.Decodable {
		p.NoClaim = true
		return p
	}
	p.AnteOK = true
	if m.TxIndex[f.Hash] {
		p.MustReject, p.RejectReason, p.RejectProp, p.AnteOK = true, "replay-of-indexed-tx", "C03", false
	}
	if !f.HonestSig {
		p.MustReject, p.RejectReason, p.RejectProp, p.AnteOK = true, "signature-not-by-signer", "C03", false
	}
	if s.KeySrc == "state" && !m.KeyOnRecord[s.Acct] {
		// no key travels with the signature and none is on record: there is nothing to verify the signature under
		p.MustReject, p.RejectReason, p.RejectProp, p.AnteOK = true, "no-key-to-verify-under", "C03", false
	}
	req := m.RequiredFee(f.MsgType, f.BaseFee)
	if f.Fee == nil {
		// fee in another denomination: does not cover the required stake-denom fee unless that is zero
		if req.Sign() > 0 {
			p.MustReject, p.RejectReason, p.RejectProp, p.AnteOK = true, "fee-below-required", "C03", false
		}
		p.AnteOK = false
	} else {
		if f.Fee.Cmp(req) < 0 {
			p.MustReject, p.RejectReason, p.RejectProp = true, "fee-below-required", "C03"
			p.AnteOK = false
		}
		if f.Fee.Cmp(m.bal(acctKey(s.Acct))) > 0 {
			p.MustReject, p.RejectReason, p.RejectProp, p.AnteOK = true, "fee-exceeds-balance", "C03", false
		}
		if f.FeeDust != nil && f.FeeDust.Cmp(m.dust(acctKey(s.Acct))) > 0 {
			p.MustReject, p.RejectReason, p.RejectProp, p.AnteOK = true, "fee-exceeds-balance", "C03", false
		}
		if !f.FeeValid && f.Fee.Sign() != 0 {
			p.AnteOK = false
		}
	}
	if uint64(len(s.Memo)) > m.P.MaxMemo {
		p.AnteOK = false
	}
	// handler-level refusals the statements require
	afterFee := new(big.Int).Set(m.bal(acctKey(s.Acct)))
	if f.Fee != nil {
		afterFee.Sub(afterFee, f.Fee)
	}
	switch s.Kind {
	case "stake":
		v, exists := m.Vals[s.Acct]
		switch {
		case m.kr.Get(s.Acct).Type != "ed":
			// only keys of the type the consensus parameters allow (ed25519) can ever sit in Tendermint's set
			p.HandlerMustFail, p.HandlerReason, p.HandlerProp = true, "stake-with-non-consensus-key", "C05"
		case exists && v.Status != StUnstaked:
			p.HandlerMustFail, p.HandlerReason, p.HandlerProp = true, "stake-while-not-unstaked", "C06"
		case f.Amount.Cmp(big.NewInt(m.P.StakeMinimum)) < 0:
			p.HandlerMustFail, p.HandlerReason, p.HandlerProp = true, "stake-below-minimum", "C06"
		case f.Amount.Cmp(afterFee) > 0:
			p.HandlerMustFail, p.HandlerReason, p.HandlerProp = true, "stake-unfunded", "C06"
		}
	case "unstake":
		v, exists := m.Vals[s.Acct]
		if !exists || v.Status != StStaked {
			p.HandlerMustFail, p.HandlerReason, p.HandlerProp = true, "unstake-while-not-staked", "C06"
		}
	case "unjail":
		v, exists := m.Vals[s.Acct]
		sg := m.Sign[s.Acct]
		switch {
		case !exists:
			p.HandlerMustFail, p.HandlerReason, p.HandlerProp = true, "unjail-unknown-validator", "C09"
		case !v.Jailed:
			p.HandlerMustFail, p.HandlerReason, p.HandlerProp = true, "unjail-not-jailed", "C09"
		case v.Stake.Cmp(big.NewInt(m.P.StakeMinimum)) < 0:
			p.HandlerMustFail, p.HandlerReason, p.HandlerProp = true, "unjail-below-minimum", "C09"
		case sg != nil && sg.Tombstoned:
			p.HandlerMustFail, p.HandlerReason, p.HandlerProp = true, "unjail-tombstoned", "C09"
		case sg != nil && (sg.Forever || m.Time < sg.JailedUntil):
			p.HandlerMustFail, p.HandlerReason, p.HandlerProp = true, "unjail-before-jailed-until", "C09"
		}
	case "send":
		if f.Amount.Cmp(afterFee) > 0 {
			p.HandlerMustFail, p.HandlerReason, p.HandlerProp = true, "send-overdraft", "C02"
		}
	case "change_param":
		o, ok := m.P.ACL[s.ParamKey]
		if !ok || o != s.Acct {
			p.HandlerMustFail, p.HandlerReason, p.HandlerProp = true, "param-change-by-non-owner", "C17"
		}
	case "upgrade":
		o, ok := m.P.ACL["gov/upgrade"]
		if !ok || o != s.Acct {
			p.HandlerMustFail, p.HandlerReason, p.HandlerProp = true, "upgrade-by-non-owner", "C17"
		}
	case "dao_transfer", "dao_burn":
		switch {
		case m.P.DAOOwner != s.Acct:
			p.HandlerMustFail, p.HandlerReason, p.HandlerProp = true, "dao-action-by-non-owner", "C17"
		case f.Amount.Cmp(m.bal(ModDAO)) > 0:
			p.HandlerMustFail, p.HandlerReason, p.HandlerProp = true, "dao-action-beyond-balance", "C17"
		case f.Amount.Sign() <= 0:
			p.HandlerMustFail, p.HandlerReason, p.HandlerProp = true, "dao-action-non-positive", "C17"
		}
	}
	return p
}

// ApplyTx updates the model with the outcome the application showed
// (stage: "pre" rejected before/within ante, "handler" ante accepted but message failed, "ok").
func (m *Model) ApplyTx(f *TxFacts, stage string) {
	s := f.Spec
	if stage == "pre" {
		return
	}
	if f.Fee != nil && f.Fee.Sign() > 0 {
		m.move(acctKey(s.Acct), ModFee, f.Fee)
	}
	if f.FeeDust != nil && f.FeeDust.Sign() > 0 {
		m.dust(acctKey(s.Acct)).Sub(m.dust(acctKey(s.Acct)), f.FeeDust)
		m.dust(ModFee).Add(m.dust(ModFee), f.FeeDust)
	}
	if stage != "ok" {
		return
	}
	switch s.Kind {
	case "stake":
		v, ok := m.Vals[s.Acct]
		if !ok {
			v = &MVal{Acct: s.Acct, Stake: new(big.Int), Consensus: m.kr.Get(s.Acct).Type == "ed"}
			m.Vals[s.Acct] = v
			m.EverVal[s.Acct] = true
			// a validator convicted of double signing is jailed permanently, under whatever record
			if sg, has := m.Sign[s.Acct]; has && sg.Tombstoned {
				v.Jailed = true
			}
		}
		m.move(acctKey(s.Acct), ModPool, f.Amount)
		v.Stake = new(big.Int).Add(v.Stake, f.Amount)
		v.Status = StStaked
		if _, ok := m.Sign[s.Acct]; !ok {
			m.Sign[s.Acct] = &MSign{Start: m.Height}
		}
	case "unstake":
		if v, ok := m.Vals[s.Acct]; ok {
			v.Status = StUnstaking
			v.Completion = m.Time + m.P.UnstakingTime
		}
	case "unjail":
		if v, ok := m.Vals[s.Acct]; ok {
			v.Jailed = false
		}
	case "send":
		m.move(acctKey(s.Acct), acctKey(s.To), f.Amount)
	case "dao_transfer":
		m.move(ModDAO, acctKey(s.To), f.Amount)
	case "dao_burn":
		m.bal(ModDAO).Sub(m.bal(ModDAO), f.Amount)
		m.Supply.Sub(m.Supply, f.Amount)
	case "award":
		a, ok := m.Awards[s.To]
		if !ok {
			a = new(big.Int)
		}
		m.Awards[s.To] = new(big.Int).Add(a, f.Amount)
	case "burn":
		b, ok := m.Burns[s.To]
		if !ok {
			b = new(big.Rat)
		}
		m.Burns[s.To] = new(big.Rat).Add(b, ratFromDec(s.Amount))
	case "change_param", "upgrade":
		// parameter values are adopted from the application by the executor after it
		// has checked that only this parameter changed (see exec.go, applyParamChange)
	}
}

// ---------------------------------------------------------------- EndBlock

type Maturity struct {
	Acct  int
	Paid  *big.Int
}

// EndBlock returns the maturities the statement requires in this block.
func (m *Model) EndBlock() []Maturity {
	var out []Maturity
	var accts []int
	for a, v := range m.Vals {
		if v.Status == StUnstaking && v.Completion <= m.Time {
			accts = append(accts, a)
		}
	}
	sort.Ints(accts)
	for _, a := range accts {
		v := m.Vals[a]
		m.move(ModPool, acctKey(a), v.Stake)
		out = append(out, Maturity{Acct: a, Paid: new(big.Int).Set(v.Stake)})
		delete(m.Vals, a)
	}
	return out
}

type SetMember struct {
	Acct  int
	Addr  []byte
	Power int64
}

// ExpectedSet is the set Tendermint must hold after this block's updates:
// the MaxValidators highest-powered staked, unjailed validators.
func (m *Model) ExpectedSet() []SetMember {
	var c []SetMember
	for a, v := range m.Vals {
		if v.Status == StStaked && !v.Jailed && v.Power() >= 1 {
			c = append(c, SetMember{Acct: a, Addr: m.kr.Get(a).Addr, Power: v.Power()})
		}
	}
	sort.Slice(c, func(i, j int) bool {
		if c[i].Power != c[j].Power {
			return c[i].Power > c[j].Power
		}
		return bytes.Compare(c[i].Addr, c[j].Addr) < 0
	})
	if uint64(len(c)) > m.P.MaxValidators {
		c = c[:m.P.MaxValidators]
	}
	return c
}
