// verifsim: deterministic simulation of posmint with fault injection.
//
//	verifsim check   -property C02 [-tier quick|thorough] [-seed N] [-workers 16] [-verif /verif]
//	verifsim worker  ... (internal)
//	verifsim replay  -file replays/C02/....json
//	verifsim digest  -property C02 -n 40   (determinism self-test helper: prints run digests)
package main

import (
	"encoding/json"
	"flag"
	"fmt"
	"os"
	"runtime"
	"sort"
	"strconv"

	"verifsim/chainsim"
	"verifsim/core"
	"verifsim/keysim"
	"verifsim/kvsim"
	"verifsim/storesim"
)

var engineOf = map[string]string{
	"C01": "chainsim", "C02": "chainsim", "C03": "chainsim", "C04": "chainsim", "C05": "chainsim", "C06": "chainsim",
	"C07": "chainsim", "C08": "chainsim", "C09": "chainsim", "C10": "chainsim", "C11": "chainsim", "C17": "chainsim",
	"C12": "store+chain", "C13": "store+chain", "C14": "store+chain", "C15": "kvsim", "C16": "kvsim", "C19": "keysim",
}

func engineByName(n string) core.Engine {
	switch n {
	case "chainsim":
		return chainsim.Engine{}
	}
	if e, ok := extraEngines[n]; ok {
		return e
	}
	return nil
}

var extraEngines = map[string]core.Engine{
	"storesim": storesim.Engine{},
	"kvsim":    kvsim.Engine{},
	"keysim":   keysim.Engine{},
	// C12-C14: mostly the multistore on its own, every 17th run the whole application (Info / Query / crash in Commit through BaseApp)
	"store+chain": core.Multi{Label: "store+chain", Engines: map[string]core.Engine{"storesim": storesim.Engine{}, "chainsim": chainsim.Engine{}},
		Pattern: []string{"storesim", "storesim", "storesim", "storesim", "storesim", "storesim", "storesim", "storesim", "storesim", "storesim", "storesim", "storesim", "storesim", "storesim", "storesim", "storesim", "chainsim"}}, // 17 entries: coprime with the worker count, so every worker gets both kinds
}

func envSeed() uint64 {
	if s := os.Getenv("VERIF_SEED"); s != "" {
		if v, err := strconv.ParseUint(s, 10, 64); err == nil {
			return v
		}
		if v, err := strconv.ParseInt(s, 10, 64); err == nil {
			return uint64(v)
		}
	}
	return 1
}

func main() {
	if len(os.Args) < 2 {
		fmt.Fprintln(os.Stderr, "usage: verifsim check|worker|replay|digest ...")
		os.Exit(2)
	}
	cmd := os.Args[1]
	fs := flag.NewFlagSet(cmd, flag.ExitOnError)
	property := fs.String("property", "", "property id")
	tier := fs.String("tier", "", "quick|thorough")
	seed := fs.Uint64("seed", envSeed(), "VERIF_SEED")
	workers := fs.Int("workers", runtime.NumCPU(), "worker processes")
	worker := fs.Int("worker", 0, "worker index")
	verif := fs.String("verif", "/verif", "verif dir")
	engine := fs.String("engine", "", "engine (default: by property)")
	file := fs.String("file", "", "replay file")
	digests := fs.Bool("digests", false, "report run digests")
	n := fs.Int("n", 20, "number of runs (digest)")
	fs.Parse(os.Args[2:])
	if *tier == "" {
		*tier = os.Getenv("VERIF_TIER")
		if *tier == "" {
			*tier = "quick"
		}
	}
	if *engine == "" {
		*engine = engineOf[*property]
	}
	switch cmd {
	case "check":
		e := engineByName(*engine)
		if e == nil {
			fmt.Fprintf(os.Stderr, "no engine for property %q\n", *property)
			os.Exit(2)
		}
		self, _ := os.Executable()
		out := core.RunCheck(e, core.CheckArgs{Property: *property, Tier: *tier, VerifSeed: *seed, Workers: *workers, VerifDir: *verif, Self: self, EngineArg: *engine})
		os.Exit(out.Exit)
	case "worker":
		e := engineByName(*engine)
		if e == nil {
			os.Exit(2)
		}
		os.Exit(core.RunWorker(e, core.WorkerArgs{Property: *property, Tier: *tier, VerifSeed: *seed, Worker: *worker, Workers: *workers, VerifDir: *verif, WantDigests: *digests}))
	case "replay":
		b, err := os.ReadFile(*file)
		if err != nil {
			fmt.Fprintln(os.Stderr, err)
			os.Exit(2)
		}
		var rf core.ReplayFile
		if err := json.Unmarshal(b, &rf); err != nil {
			fmt.Fprintln(os.Stderr, err)
			os.Exit(2)
		}
		e := engineByName(rf.Engine)
		if e == nil {
			fmt.Fprintln(os.Stderr, "unknown engine", rf.Engine)
			os.Exit(2)
		}
		os.Exit(core.RunReplay(e, *file))
	case "digest":
		// prints "idx digest" for the first n runs of a check, in one process (determinism self-test)
		e := engineByName(*engine)
		if e == nil {
			os.Exit(2)
		}
		type row struct {
			i int
			d string
		}
		var rows []row
		for i := 0; i < *n; i++ {
			s := core.RunSeed(*seed, *property, e.Name(), uint64(i))
			tr := e.Generate(*property, *tier, s, uint64(i))
			res, err := e.Execute(tr)
			if err != nil {
				fmt.Fprintln(os.Stderr, "harness error:", err)
				os.Exit(2)
			}
			rows = append(rows, row{i, res.Digest + " v=" + strconv.Itoa(len(res.Violations))})
			if os.Getenv("VERIF_DEBUG_DIGEST") != "" {
				for _, v := range res.Violations {
					fmt.Fprintf(os.Stderr, "run %d: %s %s | %.160s\n", i, v.Property, v.Signature(), v.Detail)
				}
			}
		}
		sort.Slice(rows, func(a, b int) bool { return rows[a].i < rows[b].i })
		for _, r := range rows {
			fmt.Println(r.i, r.d)
		}
	case "survey":
		// debugging aid: run n indices, aggregate violation signatures over all properties
		e := engineByName(*engine)
		cnt := map[string]int{}
		ex := map[string]string{}
		halts := map[string]int64{}
		probes := map[string]int64{}
		for i := 0; i < *n; i++ {
			s := core.RunSeed(*seed, *property, e.Name(), uint64(i))
			tr := e.Generate(*property, *tier, s, uint64(i))
			res, err := e.Execute(tr)
			if err != nil {
				fmt.Fprintln(os.Stderr, "harness error:", err, "idx", i)
				os.Exit(2)
			}
			for _, v := range res.Violations {
				k := v.Signature()
				cnt[k]++
				if ex[k] == "" {
					ex[k] = fmt.Sprintf("idx=%d step=%d %s", i, v.Step, v.Detail)
				}
			}
			for k, v := range res.Stats.Halts {
				halts[k] += v
			}
			for k, v := range res.Stats.Probes {
				probes[k] += v
			}
		}
		keys := make([]string, 0, len(cnt))
		for k := range cnt {
			keys = append(keys, k)
		}
		sort.Strings(keys)
		for _, k := range keys {
			fmt.Printf("%4d %s\n       %s\n", cnt[k], k, ex[k])
		}
		fmt.Println("halts:", halts)
		if *digests {
			fmt.Println("probes:", probes)
		}
	case "race-stress":
		// auxiliary to C15 (not deterministic simulation): free-running goroutines on one cachekv.Store in a
		// binary built with -race; the race detector reports to stderr and makes the process exit 66
		os.Exit(kvsim.RaceStress(*n))
	case "show":
		// debugging aid: run one index and print its violations (and optionally the trace)
		e := engineByName(*engine)
		s := core.RunSeed(*seed, *property, e.Name(), uint64(*n))
		tr := e.Generate(*property, *tier, s, uint64(*n))
		if *digests {
			fmt.Println(string(tr))
		}
		res, err := e.Execute(tr)
		if err != nil {
			fmt.Fprintln(os.Stderr, "harness error:", err)
			os.Exit(2)
		}
		for _, v := range res.Violations {
			fmt.Printf("%s step=%d\n    %s\n", v.Signature(), v.Step, v.Detail)
		}
		b, _ := json.Marshal(res.Stats)
		fmt.Println(string(b))
	default:
		fmt.Fprintln(os.Stderr, "unknown command", cmd)
		os.Exit(2)
	}
}
