// Package simdb is the simulated disk: a dbm.DB whose every durable write is an
// event the simulator sees, can crash before, and can undo (power loss of
// unsynced writes). All posmint durability goes through dbm.DB, so these events
// are a complete set of crash points.
package simdb

import (
	"bytes"
	"fmt"
	"sort"
	"sync"

	dbm "github.com/tendermint/tm-db"
)

// Crash is the sentinel panic value raised instead of performing write event #Event.
type Crash struct {
	Event   int64
	Label   string
	IOError bool // the write was refused but the device went on working (see FailWrite)
}

func (c Crash) Error() string { return fmt.Sprintf("simdb: injected crash before write event %d (%s)", c.Event, c.Label) }

type op struct {
	key    string
	val    []byte
	del    bool
	oldVal []byte
	oldHas bool
}

// Event is one durable write: a single Set/Delete or a whole batch.
type Event struct {
	Seq   int64
	Kind  string // set delete setsync deletesync batch batchsync
	Label string // classification by the engine (e.g. save:pos, prune:pos, flush)
	Sync  bool
	ops   []op
}

type DB struct {
	mu      sync.Mutex
	data    map[string][]byte
	seq     int64 // number of write events performed so far
	crashAt int64 // absolute event number to crash before; -1 = none
	undo    []Event
	undoCap int
	// Classify labels an event from the keys it sets / deletes.
	Classify func(sets, dels []string) string
	// Log of labels since the last ResetLog (used to enumerate crash points).
	log []string
	dead bool // set once a crash fired: the process is gone, whatever its unwinding code still writes is lost
	// ioErr: the armed event is refused with a panic (as tm-db's goleveldb does on an I/O error) but the device
	// keeps working: writes issued while that panic unwinds (deferred flushes) DO reach the disk
	ioErr      bool
	LateWrites int // writes attempted between a crash and Revive (dropped)
	IOFailures int // I/O errors injected so far
	lastCrash  Crash
}

var _ dbm.DB = (*DB)(nil)

func New() *DB {
	return &DB{data: map[string][]byte{}, crashAt: -1, undoCap: 256}
}

// Clone copies the durable content only (what survives a restart).
func (d *DB) Clone() *DB {
	d.mu.Lock()
	defer d.mu.Unlock()
	n := New()
	n.Classify = d.Classify
	for k, v := range d.data {
		n.data[k] = v
	}
	return n
}

// Revive clears the crashed flag: the process "restarted" on the same disk.
func (d *DB) Revive() {
	d.mu.Lock()
	d.dead = false
	d.crashAt = -1
	d.mu.Unlock()
}

// Dead reports whether a crash fired and the instance was not revived yet, and which crash it was. Code that
// recovers the crash "panic" and carries on is running in a process that does not exist any more.
func (d *DB) Dead() (bool, Crash) { d.mu.Lock(); defer d.mu.Unlock(); return d.dead, d.lastCrash }

// Seq returns the number of write events performed so far.
func (d *DB) Seq() int64 { d.mu.Lock(); defer d.mu.Unlock(); return d.seq }

// CrashBefore arms a crash before absolute write event number n (0-based count of events so far = Seq()).
func (d *DB) CrashBefore(n int64) { d.mu.Lock(); d.crashAt = n; d.ioErr = false; d.mu.Unlock() }

// FailWrite arms an I/O error at absolute write event number n: that one write panics and is not applied, the
// database stays usable while the panic unwinds (and afterwards).
func (d *DB) FailWrite(n int64) { d.mu.Lock(); d.crashAt = n; d.ioErr = true; d.mu.Unlock() }

func (d *DB) ResetLog()       { d.mu.Lock(); d.log = nil; d.mu.Unlock() }
func (d *DB) Log() []string   { d.mu.Lock(); defer d.mu.Unlock(); return append([]string(nil), d.log...) }

// UndoLast reverts the last n write events (power loss of unsynced writes).
// It stops early at a synced event and returns how many were undone.
func (d *DB) UndoLast(n int) int {
	d.mu.Lock()
	defer d.mu.Unlock()
	done := 0
	for done < n && len(d.undo) > 0 {
		ev := d.undo[len(d.undo)-1]
		if ev.Sync {
			break
		}
		for i := len(ev.ops) - 1; i >= 0; i-- {
			o := ev.ops[i]
			if o.oldHas {
				d.data[o.key] = o.oldVal
			} else {
				delete(d.data, o.key)
			}
		}
		d.undo = d.undo[:len(d.undo)-1]
		d.seq--
		done++
	}
	return done
}

// LastLabels returns the labels of the last n events still in the undo log (oldest first).
func (d *DB) LastLabels(n int) []string {
	d.mu.Lock()
	defer d.mu.Unlock()
	if n > len(d.undo) {
		n = len(d.undo)
	}
	out := make([]string, 0, n)
	for _, e := range d.undo[len(d.undo)-n:] {
		out = append(out, e.Label)
	}
	return out
}

func (d *DB) apply(kind string, sync bool, ops []op) {
	// caller holds d.mu
	if d.dead {
		// code that runs while the crash "panic" unwinds: the real process was killed, nothing of this happened
		d.LateWrites++
		return
	}
	label := kind
	if d.Classify != nil {
		var sets, dels []string
		for _, o := range ops {
			if o.del {
				dels = append(dels, o.key)
			} else {
				sets = append(sets, o.key)
			}
		}
		label = d.Classify(sets, dels)
	}
	if d.crashAt >= 0 && d.seq == d.crashAt {
		if d.ioErr {
			d.crashAt = -1
			d.IOFailures++
			panic(Crash{Event: d.seq, Label: label, IOError: true})
		}
		d.dead = true
		d.lastCrash = Crash{Event: d.seq, Label: label}
		panic(d.lastCrash)
	}
	for i := range ops {
		o := &ops[i]
		old, has := d.data[o.key]
		o.oldVal, o.oldHas = old, has
		if o.del {
			delete(d.data, o.key)
		} else {
			d.data[o.key] = o.val
		}
	}
	ev := Event{Seq: d.seq, Kind: kind, Label: label, Sync: sync, ops: ops}
	d.seq++
	d.undo = append(d.undo, ev)
	if len(d.undo) > d.undoCap {
		d.undo = d.undo[len(d.undo)-d.undoCap:]
	}
	d.log = append(d.log, label)
}

func nn(b []byte) []byte {
	if b == nil {
		return []byte{}
	}
	return b
}

func (d *DB) Get(key []byte) []byte {
	d.mu.Lock()
	defer d.mu.Unlock()
	v, ok := d.data[string(nn(key))]
	if !ok {
		return nil
	}
	return v
}

func (d *DB) Has(key []byte) bool {
	d.mu.Lock()
	defer d.mu.Unlock()
	_, ok := d.data[string(nn(key))]
	return ok
}

func cp(b []byte) []byte { return append([]byte{}, b...) }

func (d *DB) Set(key, value []byte) {
	d.mu.Lock()
	defer d.mu.Unlock()
	d.apply("set", false, []op{{key: string(nn(key)), val: cp(value)}})
}
func (d *DB) SetSync(key, value []byte) {
	d.mu.Lock()
	defer d.mu.Unlock()
	d.apply("setsync", true, []op{{key: string(nn(key)), val: cp(value)}})
}
func (d *DB) Delete(key []byte) {
	d.mu.Lock()
	defer d.mu.Unlock()
	d.apply("delete", false, []op{{key: string(nn(key)), del: true}})
}
func (d *DB) DeleteSync(key []byte) {
	d.mu.Lock()
	defer d.mu.Unlock()
	d.apply("deletesync", true, []op{{key: string(nn(key)), del: true}})
}

func (d *DB) Close() {}
func (d *DB) Print() {}
func (d *DB) Stats() map[string]string {
	d.mu.Lock()
	defer d.mu.Unlock()
	return map[string]string{"database.type": "simdb", "database.size": fmt.Sprintf("%d", len(d.data))}
}

// Len returns the number of keys on the simulated disk.
func (d *DB) Len() int { d.mu.Lock(); defer d.mu.Unlock(); return len(d.data) }

// Dump returns the sorted content (for raw comparisons).
func (d *DB) Dump() [][2][]byte {
	d.mu.Lock()
	defer d.mu.Unlock()
	keys := make([]string, 0, len(d.data))
	for k := range d.data {
		keys = append(keys, k)
	}
	sort.Strings(keys)
	out := make([][2][]byte, 0, len(keys))
	for _, k := range keys {
		out = append(out, [2][]byte{[]byte(k), d.data[k]})
	}
	return out
}

type batch struct {
	db  *DB
	ops []op
}

func (d *DB) NewBatch() dbm.Batch { return &batch{db: d} }

func (b *batch) Set(key, value []byte) { b.ops = append(b.ops, op{key: string(nn(key)), val: cp(value)}) }
func (b *batch) Delete(key []byte)     { b.ops = append(b.ops, op{key: string(nn(key)), del: true}) }
func (b *batch) Write() {
	b.db.mu.Lock()
	defer b.db.mu.Unlock()
	b.db.apply("batch", false, b.ops)
	b.ops = nil
}
func (b *batch) WriteSync() {
	b.db.mu.Lock()
	defer b.db.mu.Unlock()
	b.db.apply("batchsync", true, b.ops)
	b.ops = nil
}
func (b *batch) Close() {}

// ---- iterators over a sorted snapshot of the keys in the domain

type iter struct {
	start, end []byte
	keys       []string
	vals       [][]byte
	i          int
}

func (d *DB) snapshot(start, end []byte, reverse bool) *iter {
	d.mu.Lock()
	defer d.mu.Unlock()
	keys := make([]string, 0)
	for k := range d.data {
		if dbm.IsKeyInDomain([]byte(k), start, end) {
			keys = append(keys, k)
		}
	}
	sort.Strings(keys)
	if reverse {
		for i, j := 0, len(keys)-1; i < j; i, j = i+1, j-1 {
			keys[i], keys[j] = keys[j], keys[i]
		}
	}
	vals := make([][]byte, len(keys))
	for i, k := range keys {
		vals[i] = d.data[k]
	}
	return &iter{start: start, end: end, keys: keys, vals: vals}
}

func (d *DB) Iterator(start, end []byte) dbm.Iterator        { return d.snapshot(start, end, false) }
func (d *DB) ReverseIterator(start, end []byte) dbm.Iterator { return d.snapshot(start, end, true) }

func (it *iter) Domain() ([]byte, []byte) { return it.start, it.end }
func (it *iter) Valid() bool              { return it.i < len(it.keys) }
func (it *iter) Next() {
	if !it.Valid() {
		panic("simdb iterator invalid")
	}
	it.i++
}
func (it *iter) Key() []byte {
	if !it.Valid() {
		panic("simdb iterator invalid")
	}
	return []byte(it.keys[it.i])
}
func (it *iter) Value() []byte {
	if !it.Valid() {
		panic("simdb iterator invalid")
	}
	return it.vals[it.i]
}
func (it *iter) Close() {}

// RootmultiClassifier labels the write events of a rootmulti commit:
// "flush" (commit info + latest version), "save:<store>" (IAVL SaveVersion),
// "prune:<store>" (IAVL DeleteVersion), otherwise "other".
func RootmultiClassifier(sets, dels []string) string {
	for _, k := range sets {
		if k == "s/latest" {
			return "flush"
		}
	}
	name := func(k string) (string, string) {
		if !bytes.HasPrefix([]byte(k), []byte("s/k:")) {
			return "", ""
		}
		rest := k[4:]
		for i := 0; i < len(rest); i++ {
			if rest[i] == '/' {
				return rest[:i], rest[i+1:]
			}
		}
		return "", ""
	}
	for _, k := range dels {
		if n, r := name(k); n != "" && len(r) > 0 && r[0] == 'r' {
			return "prune:" + n
		}
	}
	for _, k := range sets {
		if n, r := name(k); n != "" && len(r) > 0 && r[0] == 'r' {
			return "save:" + n
		}
	}
	for _, k := range append(sets, dels...) {
		if n, _ := name(k); n != "" {
			return "other:" + n
		}
	}
	return "other"
}
