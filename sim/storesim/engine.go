package storesim

import (
	"os"
	"encoding/hex"
	"fmt"

	"verifsim/core"
)

type Engine struct{}

func (Engine) Name() string { return "storesim" }

var components = map[string]string{
	"posmint store/rootmulti, store/iavl, store/transient, store/types": "real code",
	"tendermint/iavl v0.12.4, crypto/merkle proof runtime, go-amino":     "real code",
	"disk (goleveldb)": "stub: SimDB (ordered write events, crash before any event)",
}

func (Engine) Plan(property, tier string) core.Plan {
	p := core.Plan{Level: "exploration", MaxWall: 150, Components: components}
	runs := map[string]int{"C12": 42000, "C13": 8000, "C14": 38000}[property]
	if tier == "thorough" {
		runs *= 8
		p.MaxWall = 1500
	}
	p.Runs = runs
	p.Rule = "one case = one seeded history of set/delete/commit/reopen/load-version/query steps over 1-5 IAVL and 0-2 transient stores under one pruning option, executed against the real rootmulti store on the simulated disk and compared with a per-version content model; " +
		"distinct = distinct trace digest; non-trivial = at least one write and one commit"
	p.Assumptions = []string{
		"goleveldb gives atomic batches and prefix durability (SimDB models exactly that)",
		"LoadVersion(0) is not a target version (IAVL loads the latest version for 0 by design)",
		"sampling: a clean batch is evidence, not proof",
	}
	if property == "C13" {
		p.Level = "fault_enumeration"
		p.Rule = "per sampled history EVERY DB write event of EVERY Commit is used as crash point (one re-execution each): reopen must succeed and show the complete previous or new version in all stores, and re-executing the interrupted commit must give the uninterrupted hash; " + p.Rule
	}
	return p
}

var pruningChoices = []Pruning{{0, 0}, {0, 1}, {1, 0}, {2, 0}, {5, 0}, {1, 2}, {2, 3}, {3, 5}, {100, 10000}, {0, 2}}

var keyPool = [][]byte{[]byte("a"), []byte("b"), []byte("ab"), []byte("abc"), []byte("b\x00"), {0xff}, {0xff, 0xff}, []byte("k1"), []byte("k2"), []byte("k/3"), {0x00}, []byte("zz"), []byte("m"), []byte("a\xff")}

func Generate(property, tier string, seed uint64) *Trace {
	r := core.NewRng(seed)
	tr := &Trace{Engine: "storesim", Property: property, Seed: seed}
	nI := r.Range(1, 5)
	nT := 0
	if r.Chance(0.4) {
		nT = r.Range(1, 2)
	}
	for i := 0; i < nI; i++ {
		tr.Stores = append(tr.Stores, StoreCfg{Name: fmt.Sprintf("s%d", i)})
	}
	for i := 0; i < nT; i++ {
		tr.Stores = append(tr.Stores, StoreCfg{Name: fmt.Sprintf("t%d", i), Transient: true})
	}
	// transient stores anywhere in the mount list
	r.Shuffle(len(tr.Stores), func(i, j int) { tr.Stores[i], tr.Stores[j] = tr.Stores[j], tr.Stores[i] })
	tr.Pruning = pruningChoices[r.Intn(len(pruningChoices))]
	tr.Lazy = false // observation O3 (DESIGN.md): lazy loading is not reachable through baseapp and iavl v0.12.4's LazyLoadVersion is defective on its own
	commits := r.Range(3, 25)
	wQuery, wLoad, wReopen := 2, 2, 1
	switch property {
	case "C13":
		commits = r.Range(1, 6)
		if tier == "thorough" {
			commits = r.Range(2, 12)
		}
		tr.EnumCrash = true
		tr.EnumIOErr = r.Chance(0.35)
		wQuery, wLoad, wReopen = 0, 1, 0
	case "C14":
		wQuery = 12
	case "C12":
		if tier == "thorough" && r.Chance(0.15) {
			commits = r.Range(60, 250)
		}
	}
	if property == "C12" && r.Chance(0.25) {
		// an application that adds stores in later releases: some IAVL stores are mounted only from a later reopen on
		late := 0
		for i := range tr.Stores {
			if !tr.Stores[i].Transient && late < 2 && r.Chance(0.5) {
				tr.Stores[i].From = r.Range(1, 3)
				late++
			}
		}
		// at least one IAVL store from the start
		all := true
		for i := range tr.Stores {
			if !tr.Stores[i].Transient && tr.Stores[i].From == 0 {
				all = false
			}
		}
		if all {
			for i := range tr.Stores {
				if !tr.Stores[i].Transient {
					tr.Stores[i].From = 0
					break
				}
			}
		}
		wReopen = 4
	}
	nKeys := r.Range(2, len(keyPool))
	ctr := 0
	if tr.Lazy {
		// observation O3 (DESIGN.md): iavl v0.12.4's LazyLoadVersion panics on a version whose tree is empty;
		// that is the dependency's bug, so lazy runs keep one permanent key in every IAVL store
		for i, sc := range tr.Stores {
			if !sc.Transient {
				tr.Steps = append(tr.Steps, Step{Op: "set", Store: i, Key: hex.EncodeToString([]byte("PERMANENT")), Val: hex.EncodeToString([]byte("p"))})
			}
		}
	}
	latest := int64(0)
	written := map[int]map[string]bool{}
	// how the writes of a block reach the root store: directly, through a cache-wrapped multistore, or mixed per block
	via := r.Intn(3)
	for c := 0; c < commits; c++ {
		cachedBlock := via == 1 || (via == 2 && r.Chance(0.5))
		nOps := r.Range(0, 8)
		if c == 0 && nOps == 0 {
			nOps = 2
		}
		for o := 0; o < nOps; o++ {
			si := r.Intn(len(tr.Stores))
			k := keyPool[r.Intn(nKeys)]
			if written[si] == nil {
				written[si] = map[string]bool{}
			}
			if r.Chance(0.25) {
				tr.Steps = append(tr.Steps, Step{Op: "delete", Store: si, Key: hex.EncodeToString(k), Cached: cachedBlock})
			} else {
				ctr++
				v := fmt.Sprintf("v%d", ctr)
				if r.Chance(0.05) {
					v = ""
				}
				tr.Steps = append(tr.Steps, Step{Op: "set", Store: si, Key: hex.EncodeToString(k), Val: hex.EncodeToString([]byte(v)), Cached: cachedBlock})
				written[si][string(k)] = true
			}
			// queries and loads between writes: uncommitted data is present while they run
			switch r.Pick([]int{30, wQuery, wLoad}) {
			case 1:
				tr.Steps = append(tr.Steps, genQuery(r, tr, nKeys, latest))
			case 2:
				op := "load"
				if r.Chance(0.4) {
					op = "loadcopy"
				}
				v := pickVersion(r, latest)
				if op == "loadcopy" && r.Chance(0.15) {
					v = 0 // what a query without height does before the first commit
				}
				tr.Steps = append(tr.Steps, Step{Op: op, Version: v})
			}
		}
		tr.Steps = append(tr.Steps, Step{Op: "commit"})
		latest++
		n := r.Range(0, 3)
		for i := 0; i < n; i++ {
			switch r.Pick([]int{wQuery, wLoad, wReopen}) {
			case 0:
				tr.Steps = append(tr.Steps, genQuery(r, tr, nKeys, latest))
			case 1:
				tr.Steps = append(tr.Steps, Step{Op: "load", Version: pickVersion(r, latest)})
			case 2:
				tr.Steps = append(tr.Steps, Step{Op: "reopen"})
			}
		}
	}
	// at the end: probe every version once (retained and pruned), and a reopen
	tr.Steps = append(tr.Steps, Step{Op: "reopen"})
	for v := int64(1); v <= latest+1 && v <= 40; v++ {
		tr.Steps = append(tr.Steps, Step{Op: "load", Version: v})
	}
	return tr
}

func pickVersion(r *core.Rng, latest int64) int64 {
	switch r.Pick([]int{5, 2, 1, 1}) {
	case 0:
		return r.Range64(1, latest+1)
	case 1:
		return latest
	case 2:
		return latest + 1 + int64(r.Intn(3))
	default:
		if latest > 1 {
			return latest - 1
		}
		return 1
	}
}

func genQuery(r *core.Rng, tr *Trace, nKeys int, latest int64) Step {
	si := r.Intn(len(tr.Stores))
	for try := 0; try < 4 && tr.Stores[si].Transient; try++ {
		si = r.Intn(len(tr.Stores))
	}
	k := keyPool[r.Intn(len(keyPool))] // also keys never written
	if r.Chance(0.7) {
		k = keyPool[r.Intn(nKeys)]
	}
	v := pickVersion(r, latest)
	if r.Chance(0.08) {
		v = 0 // no height named
	}
	return Step{Op: "query", Store: si, Key: hex.EncodeToString(k), Version: v, Prove: r.Chance(0.6)}
}

func (Engine) Generate(property, tier string, seed uint64, idx uint64) []byte {
	return Generate(property, tier, seed).Marshal()
}

func (Engine) Execute(trace []byte) (*core.Result, error) {
	tr, err := Unmarshal(trace)
	if err != nil {
		return nil, err
	}
	if tr.EnumCrash {
		return executeEnum(tr)
	}
	return execute(tr)
}

// executeEnum: one counting run, then one run per (commit, write event) with the crash there.
func executeEnum(tr *Trace) (*core.Result, error) {
	base := tr.Clone()
	base.EnumCrash = false
	e0 := &exec{}
	_ = e0
	res, counts, err := executeCounting(base)
	if err != nil {
		return nil, err
	}
	total := res
	// the hashes of the uninterrupted run: every crash variant must come back to them
	refHashes = hashSinkLast
	defer func() { refHashes = nil }()
	seen := map[string]bool{}
	for _, v := range total.Violations {
		seen[v.Signature()] = true
	}
	points := 0
	var variantDigests []byte
	ord := 0
	for si := range base.Steps {
		if base.Steps[si].Op != "commit" {
			continue
		}
		n := counts[ord]
		ord++
		variants := 1
		if tr.EnumIOErr {
			variants = 2
		}
		for kv := 0; kv < n*variants; kv++ {
			k := kv % n
			c := base.Clone()
			kk := k
			c.Steps[si].Crash = &kk
			c.Steps[si].IOErr = kv >= n
			r, err := execute(c)
			if err != nil {
				return nil, err
			}
			points++
			variantDigests = append(variantDigests, r.Digest...)
			total.Stats.Merge(r.Stats)
			for _, v := range r.Violations {
				if os.Getenv("VERIF_DEBUG") != "" {
					fmt.Fprintf(os.Stderr, "DEBUG enum: commit step %d crash before event %d/%d ioerr=%v: %s %s\n", si, k, n, kv >= n, v.Oracle, v.Detail)
				}
				if !seen[v.Signature()] {
					seen[v.Signature()] = true
					total.Violations = append(total.Violations, v)
				}
			}
		}
	}
	total.Stats.C("crash_points_enumerated", int64(points))
	total.NonTrivial = points > 0
	total.Digest = core.Digest([]byte(total.Digest), []byte(fmt.Sprint(points)), variantDigests)
	return total, nil
}

func executeCounting(tr *Trace) (*core.Result, map[int]int, error) {
	countSink = map[int]int{}
	hashSink = map[int64][]byte{}
	defer func() { countSink, hashSink = nil, nil }()
	res, err := execute(tr)
	out := countSink
	hashSinkLast = hashSink
	return res, out, err
}

var countSink map[int]int

// hashSink collects version -> hash of the run in progress (the counting run of an enumeration); refHashes are the
// hashes of that uninterrupted run while the crash variants execute.
var hashSink, hashSinkLast, refHashes map[int64][]byte

func (Engine) Sample(trace []byte) interface{} {
	tr, err := Unmarshal(trace)
	if err != nil {
		return string(trace)
	}
	n := len(tr.Steps)
	first := tr.Steps
	if n > 14 {
		first = tr.Steps[:14]
	}
	return map[string]interface{}{"stores": tr.Stores, "pruning": tr.Pruning, "lazy": tr.Lazy, "steps": n, "enum_crash": tr.EnumCrash, "first_steps": first}
}

func (Engine) Shrink(trace []byte, keep func([]byte) bool, sb core.ShrinkBudget) []byte {
	tr, err := Unmarshal(trace)
	if err != nil {
		return trace
	}
	b := core.NewBudget(sb)
	try := func(c *Trace) bool {
		if b.Exhausted() {
			return false
		}
		b.Used++
		return keep(c.Marshal())
	}
	if tr.EnumCrash {
		base := tr.Clone()
		base.EnumCrash = false
		_, counts, err := executeCounting(base.Clone())
		found := false
		if err == nil {
			if try(base) {
				tr, found = base, true
			}
			ord := 0
			for si := range base.Steps {
				if found {
					break
				}
				if base.Steps[si].Op != "commit" {
					continue
				}
				n := counts[ord]
				ord++
				for k := 0; k < n && !found; k++ {
					c := base.Clone()
					kk := k
					c.Steps[si].Crash = &kk
					if try(c) {
						tr, found = c, true
					}
				}
			}
		}
		if !found {
			return trace
		}
	}
	n := len(tr.Steps)
	build := func(k []int) *Trace {
		c := tr.Clone()
		c.Steps = nil
		for _, i := range k {
			c.Steps = append(c.Steps, tr.Steps[i])
		}
		return c
	}
	// removing writes before a crashing commit changes the number of write events: keep the label-based signature,
	// and let the crash index float down if needed
	k := core.DDMin(n, func(k []int) bool {
		c := build(k)
		if try(c) {
			return true
		}
		return false
	}, b)
	tr = build(k)
	// fewer stores: drop stores nobody references
	used := map[int]bool{}
	for _, s := range tr.Steps {
		if s.Op == "set" || s.Op == "delete" || s.Op == "query" {
			used[s.Store] = true
		}
	}
	if len(used) < len(tr.Stores) && len(used) > 0 {
		c := tr.Clone()
		remap := map[int]int{}
		c.Stores = nil
		for i, sc := range tr.Stores {
			if used[i] {
				remap[i] = len(c.Stores)
				c.Stores = append(c.Stores, sc)
			}
		}
		for i := range c.Steps {
			c.Steps[i].Store = remap[c.Steps[i].Store]
		}
		if try(c) {
			tr = c
		}
	}
	return tr.Marshal()
}
