// Package storesim drives store/rootmulti (+ store/iavl, store/transient) over
// the simulated disk: write/delete/commit/reopen/load-version/query histories
// under every pruning option, with every DB write event of every Commit as a
// crash point (C13), checked against a per-version content model.
package storesim

import (
	"strings"
	"bytes"
	"crypto/sha256"
	"encoding/hex"
	"encoding/json"
	"fmt"
	"sort"

	abci "github.com/tendermint/tendermint/abci/types"

	"github.com/pokt-network/posmint/store/rootmulti"
	stypes "github.com/pokt-network/posmint/store/types"

	"verifsim/core"
	"verifsim/simdb"
)

type StoreCfg struct {
	Name      string `json:"name"`
	Transient bool   `json:"transient,omitempty"`
	// From: the store is mounted only from the From-th clean reopen on (0 = from the start): an application
	// that adds a store in a later release. Its IAVL version numbering then differs from the multistore's.
	From int `json:"from,omitempty"`
}

type Pruning struct {
	KeepRecent int64 `json:"keep_recent"`
	KeepEvery  int64 `json:"keep_every"`
}

type Step struct {
	Op      string `json:"op"` // set delete commit reopen load query
	Store   int    `json:"store,omitempty"`
	Key     string `json:"key,omitempty"` // hex
	Val     string `json:"val,omitempty"` // hex
	Version int64  `json:"version,omitempty"`
	Prove   bool   `json:"prove,omitempty"`
	// Cached: the write goes through a cache-wrapped multistore that is written back at once (the way a block's
	// state reaches the root store in an application)
	Cached bool `json:"cached,omitempty"`
	// Crash: crash before DB write event #Crash of this commit (-1 / absent = none); set by crash enumeration
	Crash *int `json:"crash,omitempty"`
	// IOErr: the fault at event #Crash is an I/O error (the write panics, the device goes on working while the
	// panic unwinds), not the death of the process
	IOErr bool `json:"io_err,omitempty"`
}

type Trace struct {
	Engine   string     `json:"engine"`
	Property string     `json:"property"`
	Seed     uint64     `json:"seed"`
	Stores   []StoreCfg `json:"stores"`
	Pruning  Pruning    `json:"pruning"`
	Lazy     bool       `json:"lazy,omitempty"`
	// EnumCrash: execute once per (commit, DB write event) with the crash there (C13)
	EnumCrash bool   `json:"enum_crash,omitempty"`
	// EnumIOErr: enumerate every write event a second time as an I/O error
	EnumIOErr bool `json:"enum_io_err,omitempty"`
	Steps     []Step `json:"steps"`
}

func (t *Trace) Marshal() []byte {
	b, _ := json.Marshal(t)
	return b
}

func Unmarshal(b []byte) (*Trace, error) {
	var t Trace
	if err := json.Unmarshal(b, &t); err != nil {
		return nil, err
	}
	return &t, nil
}

func (t *Trace) Clone() *Trace {
	c, _ := Unmarshal(t.Marshal())
	return c
}

// ---------------------------------------------------------------- model

type content map[string]string // key -> value (raw bytes as strings)

func (c content) clone() content {
	n := content{}
	for k, v := range c {
		n[k] = v
	}
	return n
}

type model struct {
	work     []content          // working content per store
	versions map[int64][]content // committed content per version per store
	hashes   map[int64][]byte
	latest   int64
	pr       Pruning
	// version 0 exists implicitly (empty)
	first     []int64 // per store: multistore version of the first commit that contained it (0 = none yet)
	transient []bool
}

func newModel(n int, pr Pruning) *model {
	m := &model{versions: map[int64][]content{}, hashes: map[int64][]byte{}, pr: pr}
	for i := 0; i < n; i++ {
		m.work = append(m.work, content{})
	}
	m.first = make([]int64, n)
	m.transient = make([]bool, n)
	return m
}

// retained says whether version x is readable once `latest` has been committed:
// the pruning rule releases version (v-1-keepRecent) when v is saved unless it is a multiple of keepEvery.
func (m *model) retained(x int64) bool {
	if x < 1 || x > m.latest {
		return false
	}
	// every IAVL store prunes in its own version numbering (own version 1 = its first commit); a multistore
	// version is readable when every store that existed at that version still has its part of it
	for i, f := range m.first {
		if m.transient[i] || f == 0 || x < f {
			continue
		}
		own, ownLatest := x-f+1, m.latest-f+1
		if own >= ownLatest-m.pr.KeepRecent {
			continue
		}
		if m.pr.KeepEvery != 0 && own%m.pr.KeepEvery == 0 {
			continue
		}
		return false
	}
	return true
}

// ---------------------------------------------------------------- executor

type exec struct {
	tr    *Trace
	db    *simdb.DB
	rs    *rootmulti.Store
	keys  []stypes.StoreKey
	m     *model
	res   *core.Result
	log   []string
	step  int
	dead  bool
	commitIdx int
	pendingOps []Step // writes since the last commit, in order (re-applied verbatim after a crash)
	commitEvents map[int]int // commit ordinal -> number of write events (counting runs)
	epoch   int   // clean reopens so far (stores with From > epoch are not mounted yet)
	crashed bool  // a crash was injected in this run
	crashV  int64 // ... in the Commit of this version
	cmpV    int64 // version being compared by compareContent (0 = the working state)
	cmpLive bool  // comparing the live store between commits
}

func (e *exec) mounted(i int) bool { return e.tr.Stores[i].From <= e.epoch }

// comparable: store i's content at version v is defined (a store mounted later did not exist at earlier versions;
// what LoadVersion shows for it there is outside the statement)
func (e *exec) comparable(i int, v int64) bool {
	if !e.mounted(i) {
		return false
	}
	if v == 0 || e.tr.Stores[i].Transient {
		return true
	}
	return e.m.first[i] != 0 && v >= e.m.first[i]
}

func (e *exec) viol(prop, oracle string, attrs map[string]string, f string, a ...interface{}) {
	if attrs == nil {
		attrs = map[string]string{}
	}
	attrs["keep_recent"] = fmt.Sprint(e.tr.Pruning.KeepRecent)
	if e.tr.Pruning.KeepEvery == 0 {
		attrs["keep_every"] = "0"
	} else {
		attrs["keep_every"] = "nonzero"
	}
	v := core.Violation{Property: prop, Oracle: oracle, Attrs: attrs, Step: e.step, Detail: fmt.Sprintf(f, a...)}
	for _, o := range e.res.Violations {
		if o.Signature() == v.Signature() {
			return
		}
	}
	e.res.Violations = append(e.res.Violations, v)
}

func (e *exec) open(db *simdb.DB) (rs *rootmulti.Store, err error) {
	defer func() {
		if r := recover(); r != nil {
			if c, ok := r.(simdb.Crash); ok {
				panic(c)
			}
			err = fmt.Errorf("panic: %v", r)
		}
	}()
	rs = rootmulti.NewStore(db)
	rs.SetPruning(stypes.NewPruningOptions(e.tr.Pruning.KeepRecent, e.tr.Pruning.KeepEvery))
	rs.SetLazyLoading(e.tr.Lazy)
	for i, sc := range e.tr.Stores {
		if !e.mounted(i) {
			continue
		}
		typ := stypes.StoreTypeIAVL
		if sc.Transient {
			typ = stypes.StoreTypeTransient
		}
		rs.MountStoreWithDB(e.keys[i], typ, nil)
	}
	if err := rs.LoadLatestVersion(); err != nil {
		return nil, err
	}
	return rs, nil
}

func dump(st stypes.KVStore, reverse bool) (out [][2]string, err error) {
	defer func() {
		if r := recover(); r != nil {
			err = fmt.Errorf("panic while iterating: %v", r)
		}
	}()
	var it stypes.Iterator
	if reverse {
		it = st.ReverseIterator(nil, nil)
	} else {
		it = st.Iterator(nil, nil)
	}
	defer it.Close()
	for ; it.Valid(); it.Next() {
		out = append(out, [2]string{string(it.Key()), string(it.Value())})
	}
	return
}

func sortedPairs(c content, reverse bool) [][2]string {
	ks := make([]string, 0, len(c))
	for k := range c {
		ks = append(ks, k)
	}
	sort.Strings(ks)
	if reverse {
		for i, j := 0, len(ks)-1; i < j; i, j = i+1, j-1 {
			ks[i], ks[j] = ks[j], ks[i]
		}
	}
	out := make([][2]string, 0, len(ks))
	for _, k := range ks {
		out = append(out, [2]string{k, c[k]})
	}
	return out
}

func pairsEqual(a, b [][2]string) bool {
	if len(a) != len(b) {
		return false
	}
	for i := range a {
		if a[i] != b[i] {
			return false
		}
	}
	return true
}

// compareContent checks every store of rs against want (nil content = empty).
func (e *exec) compareContent(rs *rootmulti.Store, want []content, prop, oracle string, attrs map[string]string, what string) bool {
	ok := true
	for i, sc := range e.tr.Stores {
		if !e.comparable(i, e.cmpV) {
			continue
		}
		st := rs.GetKVStore(e.keys[i])
		for _, rev := range []bool{false, true} {
			got, err := dump(st, rev)
			var w content
			if want != nil && !sc.Transient {
				w = want[i]
			}
			if sc.Transient {
				w = content{}
				if e.cmpLive && want != nil {
					w = want[i] // the live store between commits: a transient store holds what the block wrote so far
				}
			}
			if err != nil || !pairsEqual(got, sortedPairs(w, rev)) {
				a := map[string]string{}
				for k, v := range attrs {
					a[k] = v
				}
				if sc.Transient {
					a["store"] = "transient"
				} else {
					a["store"] = "iavl"
				}
				e.viol(prop, oracle, a, "%s: store %s holds %d pairs (reverse=%v, err=%v), the model has %d", what, sc.Name, len(got), rev, err, len(w))
				ok = false
				break
			}
		}
	}
	return ok
}

func execute(tr *Trace) (*core.Result, error) {
	// rootmulti commits its substores in Go map order: make that order a function of the trace's seed
	core.SetMapSeed(core.SplitMix64(tr.Seed ^ 0x73746f7265))
	defer core.ClearMapSeed()
	e := &exec{tr: tr, res: &core.Result{Stats: core.NewStats()}, commitEvents: map[int]int{}}
	e.db = simdb.New()
	e.db.Classify = simdb.RootmultiClassifier
	for _, sc := range tr.Stores {
		if sc.Transient {
			e.keys = append(e.keys, stypes.NewTransientStoreKey(sc.Name))
		} else {
			e.keys = append(e.keys, stypes.NewKVStoreKey(sc.Name))
		}
	}
	e.m = newModel(len(tr.Stores), tr.Pruning)
	for i, sc := range tr.Stores {
		e.m.transient[i] = sc.Transient
	}
	rs, err := e.open(e.db)
	if err != nil {
		return nil, fmt.Errorf("cannot open an empty store: %v", err)
	}
	e.rs = rs
	for i := range tr.Steps {
		if e.dead {
			break
		}
		e.step = i
		e.do(&tr.Steps[i])
	}
	h := sha256.New()
	for _, l := range e.log {
		h.Write([]byte(l))
		h.Write([]byte{'\n'})
	}
	for _, v := range e.res.Violations {
		h.Write([]byte(v.Signature()))
	}
	e.res.Digest = hex.EncodeToString(h.Sum(nil)[:12])
	th := sha256.Sum256(tr.Marshal())
	e.res.TraceHash = hex.EncodeToString(th[:8])
	c := e.res.Stats.Counters
	e.res.NonTrivial = c["commits"] >= 1 && c["writes"] >= 1
	return e.res, nil
}

func unhex(s string) []byte {
	b, _ := hex.DecodeString(s)
	return b
}

func (e *exec) do(s *Step) {
	st := e.res.Stats
	switch s.Op {
	case "set", "delete":
		if s.Store < 0 || s.Store >= len(e.keys) || !e.mounted(s.Store) {
			return
		}
		kv := e.rs.GetKVStore(e.keys[s.Store])
		var cms stypes.CacheMultiStore
		if s.Cached {
			cms = e.rs.CacheMultiStore()
			kv = cms.GetKVStore(e.keys[s.Store])
			st.C("writes_through_cache_multistore", 1)
		}
		k := unhex(s.Key)
		if len(k) == 0 {
			return
		}
		if s.Op == "set" {
			v := unhex(s.Val)
			kv.Set(k, v)
			e.m.work[s.Store][string(k)] = string(v)
		} else {
			kv.Delete(k)
			delete(e.m.work[s.Store], string(k))
		}
		if cms != nil {
			cms.Write()
		}
		e.pendingOps = append(e.pendingOps, *s)
		st.C("writes", 1)
	case "commit":
		e.commit(s)
	case "reopen":
		e.epoch++
		rs, err := e.open(e.db)
		if err != nil {
			e.viol("C12", "reopen-error", nil, "reopening after a clean stop at version %d failed: %v", e.m.latest, err)
			e.dead = true
			return
		}
		e.rs = rs
		e.pendingOps = nil
		// uncommitted writes are gone
		for i := range e.m.work {
			if e.m.latest == 0 {
				e.m.work[i] = content{}
			} else {
				e.m.work[i] = e.m.versions[e.m.latest][i].clone()
			}
			if e.tr.Stores[i].Transient {
				e.m.work[i] = content{}
			}
		}
		id := rs.LastCommitID()
		if id.Version != e.m.latest || (e.m.latest > 0 && !bytes.Equal(id.Hash, e.m.hashes[e.m.latest])) {
			e.viol("C12", "reopen-commit-id", nil, "reopened store reports version %d hash %X, committed was version %d hash %X", id.Version, id.Hash, e.m.latest, e.m.hashes[e.m.latest])
		}
		e.compareContent(rs, e.m.work, "C12", "content-after-reopen", nil, fmt.Sprintf("after reopen at version %d", e.m.latest))
		e.log = append(e.log, fmt.Sprintf("reopen %d %x", id.Version, id.Hash))
		st.Fault("restart")
	case "load":
		e.loadVersion(s.Version)
	case "loadcopy":
		e.loadCopy(s.Version)
	case "query":
		e.query(s)
	}
}

func (e *exec) commit(s *Step) {
	st := e.res.Stats
	ord := e.commitIdx
	e.commitIdx++
	newV := e.m.latest + 1
	// the model's committed content of the new version
	var snap []content
	for i := range e.m.work {
		if e.tr.Stores[i].Transient {
			snap = append(snap, content{})
		} else {
			snap = append(snap, e.m.work[i].clone())
		}
	}
	start := e.db.Seq()
	e.db.ResetLog()
	if s.Crash != nil && *s.Crash >= 0 {
		if s.IOErr {
			e.db.FailWrite(start + int64(*s.Crash))
		} else {
			e.db.CrashBefore(start + int64(*s.Crash))
		}
	}
	var id stypes.CommitID
	var pan interface{}
	func() {
		defer func() { pan = recover() }()
		id = e.rs.Commit()
	}()
	if dead, c := e.db.Dead(); dead && pan == nil {
		// the code under test recovered the crash and went on: the process was killed at that write all the same
		pan = c
		st.Probe("crash_recovered_by_code_under_test")
	}
	e.db.CrashBefore(-1)
	if pan != nil {
		c, isCrash := pan.(simdb.Crash)
		if !isCrash {
			e.viol("C12", "commit-panic", nil, "Commit of version %d panicked: %v", newV, pan)
			e.dead = true
			return
		}
		if c.IOError {
			st.Fault("io_error_in_commit:" + labelClass(c.Label))
		} else {
			st.Fault("crash_in_commit:" + labelClass(c.Label))
		}
		st.C("crash_points_fired", 1)
		e.afterCrash(newV, snap, c, lastClass(e.db.Log()))
		return
	}
	e.commitEvents[ord] = len(e.db.Log())
	if countSink != nil {
		countSink[ord] = len(e.db.Log())
	}
	for _, l := range e.db.Log() {
		st.C("commit_event_"+labelClass(l), 1)
	}
	st.C("commits", 1)
	if id.Version != newV {
		e.viol("C12", "version-plus-one", nil, "Commit returned version %d after version %d", id.Version, e.m.latest)
	}
	if last := e.rs.LastCommitID(); last.Version != id.Version || !bytes.Equal(last.Hash, id.Hash) {
		e.viol("C12", "last-commit-id", nil, "LastCommitID %d/%X differs from what Commit returned %d/%X", last.Version, last.Hash, id.Version, id.Hash)
	}
	e.checkRefHash(newV, id.Hash, "commit")
	e.m.latest = newV
	e.m.versions[newV] = snap
	e.m.hashes[newV] = id.Hash
	e.pendingOps = nil
	for i := range e.m.work {
		if e.tr.Stores[i].Transient {
			e.m.work[i] = content{}
		}
		if e.mounted(i) && e.m.first[i] == 0 {
			e.m.first[i] = newV
			if newV > 1 {
				st.Probe("store_first_committed_at_later_version")
			}
		}
	}
	e.log = append(e.log, fmt.Sprintf("commit %d %x", id.Version, id.Hash))
	nret := 0
	for x := int64(1); x <= e.m.latest; x++ {
		if e.m.retained(x) {
			nret++
		}
	}
	st.State(fmt.Sprintf("stores=%d latest=%d retained=%d pr=%d/%d", len(e.tr.Stores), e.m.latest, nret, e.tr.Pruning.KeepRecent, e.tr.Pruning.KeepEvery))
	// transient stores are empty after every commit
	for i, sc := range e.tr.Stores {
		if sc.Transient && e.mounted(i) {
			got, _ := dump(e.rs.GetKVStore(e.keys[i]), false)
			if len(got) != 0 {
				e.viol("C12", "transient-empty-after-commit", nil, "transient store %s holds %d pairs after Commit", sc.Name, len(got))
			}
		}
	}
}

func labelClass(l string) string {
	for i := 0; i < len(l); i++ {
		if l[i] == ':' {
			return l[:i]
		}
	}
	return l
}
func lastClass(log []string) string {
	if len(log) == 0 {
		return "none"
	}
	return labelClass(log[len(log)-1])
}

// afterCrash: the process died before write event c.Event of the Commit of newV.
func (e *exec) afterCrash(newV int64, snap []content, c simdb.Crash, prevLabel string) {
	attrs := map[string]string{"crash_before": labelClass(c.Label), "crash_after": prevLabel, "height1": fmt.Sprint(newV == 1)}
	if c.IOError {
		attrs["fault"] = "io_error"
	}
	e.crashed = true
	e.crashV = newV
	e.db.Revive()
	rs, err := e.open(e.db)
	if err != nil {
		e.viol("C13", "reopen-error", attrs, "after a crash before write event %s of the Commit of version %d (previous event: %s) the store cannot be reopened: %v", c.Label, newV, prevLabel, err)
		e.dead = true
		return
	}
	e.rs = rs
	id := rs.LastCommitID()
	prevV := newV - 1
	switch id.Version {
	case newV:
		// the commit made it: content must be the complete new version (hash is checked against a later uninterrupted run by the enumerator)
		e.m.latest = newV
		e.m.versions[newV] = snap
		e.m.hashes[newV] = id.Hash
		e.pendingOps = nil
		for i := range e.m.work {
			e.m.work[i] = snap[i].clone()
			if e.mounted(i) && e.m.first[i] == 0 {
				e.m.first[i] = newV
			}
		}
		if !e.compareContent(rs, snap, "C13", "content-after-crash", attrs, fmt.Sprintf("reopened at the new version %d", newV)) {
			e.dead = true
		}
		e.res.Stats.Probe("crash_reopened_at_new_version")
	case prevV:
		var want []content
		if prevV > 0 {
			want = e.m.versions[prevV]
			if !bytes.Equal(id.Hash, e.m.hashes[prevV]) {
				e.viol("C13", "hash-after-crash", attrs, "reopened at version %d with hash %X, committed was %X", prevV, id.Hash, e.m.hashes[prevV])
			}
		}
		if !e.compareContent(rs, want, "C13", "content-after-crash", attrs, fmt.Sprintf("reopened at the previous version %d", prevV)) {
			e.dead = true
			return
		}
		e.res.Stats.Probe("crash_reopened_at_previous_version")
		// re-execute the interrupted block: the same writes in the same order (as Tendermint replays
		// the same transactions), then Commit
		for _, op := range e.pendingOps {
			if e.tr.Stores[op.Store].Transient {
				continue
			}
			kv := rs.GetKVStore(e.keys[op.Store])
			var cms stypes.CacheMultiStore
			if op.Cached {
				cms = rs.CacheMultiStore()
				kv = cms.GetKVStore(e.keys[op.Store])
			}
			if op.Op == "set" {
				kv.Set(unhex(op.Key), unhex(op.Val))
			} else {
				kv.Delete(unhex(op.Key))
			}
			if cms != nil {
				cms.Write()
			}
		}
		var rid stypes.CommitID
		var pan interface{}
		func() {
			defer func() { pan = recover() }()
			rid = rs.Commit()
		}()
		if pan != nil {
			e.viol("C13", "replay-failed", attrs, "re-executing the interrupted Commit of version %d panicked: %v", newV, pan)
			e.dead = true
			return
		}
		e.m.latest = newV
		e.m.versions[newV] = snap
		e.m.hashes[newV] = rid.Hash
		e.pendingOps = nil
		for i := range e.m.work {
			e.m.work[i] = snap[i].clone()
			if e.mounted(i) && e.m.first[i] == 0 {
				e.m.first[i] = newV
			}
		}
		if rid.Version != newV {
			e.viol("C13", "replay-version", attrs, "the re-executed Commit returned version %d, expected %d", rid.Version, newV)
		}
		e.checkRefHash(newV, rid.Hash, "recommit")
		e.log = append(e.log, fmt.Sprintf("recommit %d %x", rid.Version, rid.Hash))
	default:
		e.viol("C13", "version-after-crash", attrs, "reopened at version %d after a crash in the Commit of version %d", id.Version, newV)
		e.dead = true
	}
}

// checkRefHash: in a crash variant of an enumerated history every commit - the re-executed one and all later ones -
// returns the hash the uninterrupted run returned for that version.
func (e *exec) checkRefHash(v int64, h []byte, what string) {
	if hashSink != nil {
		hashSink[v] = append([]byte{}, h...)
	}
	if refHashes == nil || !e.crashed {
		return
	}
	want, ok := refHashes[v]
	if !ok {
		return
	}
	e.res.Stats.C("hashes_compared_with_uninterrupted_run", 1)
	if !bytes.Equal(want, h) {
		e.viol("C13", "hash-vs-uninterrupted-run", map[string]string{"at": what, "height1": fmt.Sprint(e.crashV == 1)}, "after a crash in an earlier Commit and recovery, the %s of version %d returned %X; the uninterrupted run of the same history returned %X", what, v, h, want)
	}
}

func hasKey(c content, k string) bool { _, ok := c[k]; return ok }

// loadVersion opens a fresh Store over the same disk at version v and compares.
func (e *exec) loadVersion(v int64) {
	st := e.res.Stats
	if v == 0 {
		return // "version 0" loads whatever is latest per store by design of the IAVL API; not a target version of the statement
	}
	rs := rootmulti.NewStore(e.db)
	rs.SetPruning(stypes.NewPruningOptions(e.tr.Pruning.KeepRecent, e.tr.Pruning.KeepEvery))
	rs.SetLazyLoading(e.tr.Lazy)
	for i, sc := range e.tr.Stores {
		if !e.mounted(i) {
			continue
		}
		typ := stypes.StoreTypeIAVL
		if sc.Transient {
			typ = stypes.StoreTypeTransient
		}
		rs.MountStoreWithDB(e.keys[i], typ, nil)
	}
	e.cmpV = v
	defer func() { e.cmpV = 0 }()
	var err error
	func() {
		defer func() {
			if r := recover(); r != nil {
				err = fmt.Errorf("panic: %v", r)
			}
		}()
		err = rs.LoadVersion(v)
	}()
	kind := "retained"
	switch {
	case v > e.m.latest:
		kind = "future"
	case !e.m.retained(v):
		kind = "pruned"
	}
	st.C("load_"+kind, 1)
	e.log = append(e.log, fmt.Sprintf("load %d %s err=%v", v, kind, err != nil))
	hasIAVL := false
	for _, sc := range e.tr.Stores {
		if !sc.Transient {
			hasIAVL = true
		}
	}
	switch kind {
	case "retained":
		if err != nil {
			e.viol("C12", "retained-version-unreadable", map[string]string{"kind": kind}, "LoadVersion(%d) failed although the policy retains it (latest %d): %v", v, e.m.latest, err)
			return
		}
		id := rs.LastCommitID()
		if id.Version != v || !bytes.Equal(id.Hash, e.m.hashes[v]) {
			e.viol("C12", "load-commit-id", nil, "LoadVersion(%d) reports %d/%X, committed was %X", v, id.Version, id.Hash, e.m.hashes[v])
		}
		e.compareContent(rs, e.m.versions[v], "C12", "content-at-version", nil, fmt.Sprintf("LoadVersion(%d) with latest %d", v, e.m.latest))
	default:
		if err == nil && hasIAVL {
			// an error is expected; wrong data is the violation, so look at what was loaded
			if kind == "pruned" {
				// readable although pruned is only a violation if the content is not that version's
				if !e.compareContentQuiet(rs, e.m.versions[v]) {
					e.viol("C12", "pruned-version-wrong-data", map[string]string{"kind": kind}, "LoadVersion(%d) succeeded for a pruned version and shows content that is not version %d's", v, v)
				} else if !e.crashed {
					// "versions the policy prunes become unreadable": without an interrupted commit in the history every
					// store released the version when the policy said so
					e.viol("C12", "pruned-version-readable", map[string]string{"kind": kind}, "LoadVersion(%d) succeeded although the policy (latest %d) pruned that version", v, e.m.latest)
				} else {
					e.res.Stats.Probe("pruned_version_still_readable")
				}
			} else {
				e.viol("C12", "future-version-readable", map[string]string{"kind": kind}, "LoadVersion(%d) succeeded although the latest version is %d", v, e.m.latest)
			}
		}
	}
}

// loadCopy: what the application does for every historical read (custom queries, PrevCtx): a copy of the LIVE
// multistore is pointed at version v. The copy must show the committed content of v whatever the live store has
// pending, and the live store must not notice.
func (e *exec) loadCopy(v int64) {
	st := e.res.Stats
	var cms stypes.CommitMultiStore
	var err error
	func() {
		defer func() {
			if r := recover(); r != nil {
				err = fmt.Errorf("panic: %v", r)
			}
		}()
		cp, ok := (*e.rs.CopyStore()).(*rootmulti.Store)
		if !ok {
			err = fmt.Errorf("CopyStore returned an unexpected type")
			return
		}
		err = cp.LoadVersion(v)
		cms = cp
	}()
	st.C("load_through_copy", 1)
	e.log = append(e.log, fmt.Sprintf("loadcopy %d err=%v", v, err != nil))
	if v >= 1 && v <= e.m.latest && e.m.retained(v) {
		if err != nil {
			e.viol("C12", "retained-version-unreadable", map[string]string{"kind": "retained", "via": "copy"}, "LoadVersion(%d) on a copy of the live store failed although the policy retains it (latest %d): %v", v, e.m.latest, err)
		} else if rs, ok := cms.(*rootmulti.Store); ok {
			e.cmpV = v
			e.compareContent(rs, e.m.versions[v], "C12", "content-at-version", map[string]string{"via": "copy"}, fmt.Sprintf("LoadVersion(%d) on a copy of the live store (latest %d, uncommitted writes pending)", v, e.m.latest))
			e.cmpV = 0
		}
	}
	// the live store still shows its own working content
	e.cmpLive = true
	defer func() { e.cmpLive = false }()
	e.compareContent(e.rs, e.m.work, "C12", "live-store-after-historical-read", nil, fmt.Sprintf("working content after LoadVersion(%d) on a copy", v))
}

func (e *exec) compareContentQuiet(rs *rootmulti.Store, want []content) bool {
	for i, sc := range e.tr.Stores {
		if sc.Transient || !e.comparable(i, e.cmpV) {
			continue
		}
		got, err := dump(rs.GetKVStore(e.keys[i]), false)
		var w content
		if want != nil {
			w = want[i]
		}
		if err != nil || !pairsEqual(got, sortedPairs(w, false)) {
			return false
		}
	}
	return true
}

// query: /<store>/key at height h with or without proof (C14).
func (e *exec) query(s *Step) {
	st := e.res.Stats
	if s.Store < 0 || s.Store >= len(e.keys) || e.tr.Stores[s.Store].Transient || e.tr.Stores[s.Store].From != 0 {
		return // (a store mounted later numbers its versions from its own first commit: height queries on it are not generated)
	}
	name := e.tr.Stores[s.Store].Name
	key := unhex(s.Key)
	if len(key) == 0 {
		return
	}
	h := s.Version
	if h < 0 {
		return
	}
	var res abci.ResponseQuery
	var pan interface{}
	func() {
		defer func() { pan = recover() }()
		res = e.rs.Query(abci.RequestQuery{Path: "/" + name + "/key", Data: key, Height: h, Prove: s.Prove})
	}()
	if h == 0 && pan == nil {
		// no height named: the store picks one and says which; everything below is judged against the height the
		// response names (value and proof must belong to the same height)
		h = res.Height
		st.C("query_default_height", 1)
		if h < 1 || h > e.m.latest {
			if len(res.Value) != 0 || (res.Proof != nil && len(res.Proof.Ops) > 0) {
				e.viol("C14", "data-for-absent-height", map[string]string{"kind": "default", "prove": fmt.Sprint(s.Prove)}, "a query without height answered for height %d (latest %d) with value %X / proof %v", h, e.m.latest, res.Value, res.Proof != nil)
			}
			return
		}
	}
	kind := "retained"
	switch {
	case h > e.m.latest:
		kind = "future"
	case !e.m.retained(h):
		kind = "pruned"
	}
	st.C("query_"+kind, 1)
	if s.Prove {
		st.C("query_with_proof", 1)
	}
	attrs := map[string]string{"kind": kind, "prove": fmt.Sprint(s.Prove)}
	e.log = append(e.log, fmt.Sprintf("query %s %x h=%d prove=%v -> code=%d len=%d proof=%v", name, key, h, s.Prove, res.Code, len(res.Value), res.Proof != nil))
	if pan != nil {
		attrs["key_all_ff"] = fmt.Sprint(allFF(key))
		e.viol("C14", "query-panic", attrs, "query for %X at height %d panicked: %v", key, h, pan)
		return
	}
	if kind != "retained" {
		if len(res.Value) != 0 || (res.Proof != nil && len(res.Proof.Ops) > 0) {
			// data for a height that is not there: only acceptable if it IS that height's data (pruned but still on disk)
			wantV, has := "", false
			if kind == "pruned" {
				wantV, has = e.m.versions[h][s.Store][string(key)]
			}
			if kind == "future" || !has || wantV != string(res.Value) {
				e.viol("C14", "data-for-absent-height", attrs, "query at %s height %d (latest %d) returned value %X / proof %v", kind, h, e.m.latest, res.Value, res.Proof != nil)
			}
		}
		return
	}
	want, has := e.m.versions[h][s.Store][string(key)]
	if has {
		st.Probe("query_present_key")
	} else {
		st.Probe("query_absent_key")
	}
	if string(res.Value) != want || (has && res.Code != 0) {
		e.viol("C14", "value-at-height", attrs, "query %s/%X at height %d returned %X (code %d, log %q), committed there: %X (present=%v); latest is %d",
			name, key, h, res.Value, res.Code, res.Log, want, has, e.m.latest)
		return
	}
	if !s.Prove {
		return
	}
	if res.Proof == nil || len(res.Proof.Ops) == 0 {
		// an empty store has no proof in this IAVL version; the multistore then refuses: acceptable only when the store is empty at h
		if len(e.m.versions[h][s.Store]) == 0 {
			st.Probe("proof_refused_for_empty_store")
			return
		}
		e.viol("C14", "proof-missing", attrs, "no proof returned for %s/%X at retained height %d (code %d, log %q)", name, key, h, res.Code, res.Log)
		return
	}
	prt := rootmulti.DefaultProofRuntime()
	kp := "/" + name + "/" + string(key)
	verify := func(root []byte) error {
		if has {
			return prt.VerifyValue(res.Proof, root, kp, []byte(want))
		}
		return prt.VerifyAbsence(res.Proof, root, kp)
	}
	if !safeKeyPath(key) {
		st.Probe("proof_key_needs_escaping")
		kp = "/" + name + "/x:" + hex.EncodeToString(key)
	}
	if err := verify(e.m.hashes[h]); err != nil {
		attrs["present"] = fmt.Sprint(has)
		attrs["reason"] = "other"
		if msg := err.Error(); !has && (strings.Contains(msg, "need another leaf") || strings.Contains(msg, "left over leaves") ||
			strings.Contains(msg, "COMPUTEHASH") || strings.Contains(msg, "absence not proved")) {
			// produced and refused inside iavl v0.12.4's own range-proof code (GetWithProof asks for 2 leaves only)
			attrs["reason"] = "iavl-range-proof-absence"
		}
		e.viol("C14", "proof-verifies-at-height", attrs, "proof for %s/%X (present=%v) does not verify against the app hash of height %d: %v", name, key, has, h, err)
		return
	}
	st.C("proofs_verified", 1)
	for oh, root := range e.m.hashes {
		if oh == h || bytes.Equal(root, e.m.hashes[h]) {
			continue
		}
		if err := verify(root); err == nil {
			e.viol("C14", "proof-verifies-elsewhere", attrs, "proof for height %d also verifies against the different app hash of height %d", h, oh)
		}
		st.C("proofs_cross_checked", 1)
	}
}

// safeKeyPath: merkle key paths are URL-ish; keys with '/' or '%' or non-printables use the hex form.
func safeKeyPath(k []byte) bool {
	for _, b := range k {
		if !(b >= 'a' && b <= 'z' || b >= 'A' && b <= 'Z' || b >= '0' && b <= '9') {
			return false
		}
	}
	return true
}

func allFF(k []byte) bool {
	for _, b := range k {
		if b != 0xff {
			return false
		}
	}
	return len(k) > 0
}
