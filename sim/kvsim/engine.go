package kvsim

import (
	"fmt"

	"verifsim/core"
)

type Engine struct{}

func (Engine) Name() string { return "kvsim" }

var components = map[string]string{
	"posmint store/cachekv, store/cachemulti, store/prefix, store/gaskv, store/tracekv, store/dbadapter, store/iavl, store/types (gas)": "real code",
	"tm-db MemDB, tendermint/iavl v0.12.4": "real code",
	"goroutine scheduling on one cachekv.Store": "stub: real goroutines parked at every mutex acquisition (hook H1) and inside every parent call; a seeded scheduler releases one at a time",
	"parent store in concurrent mode":          "stub: simulator-owned map store that yields on every call",
	"trace writer":                             "stub: in-memory writer that can fail at the n-th write",
}

func (Engine) Plan(property, tier string) core.Plan {
	p := core.Plan{Level: "exploration", MaxWall: 150, Components: components}
	runs := map[string]int{"C15": 300000, "C16": 250000}[property]
	if tier == "thorough" {
		runs *= 8
		p.MaxWall = 1500
	}
	p.Runs = runs
	p.Rule = "one case = one seeded operation program (Get/Has/Set/Delete/iterators with nil, empty, inverted and between-keys bounds/Write) over a tree of store wrappers, compared operation by operation with a sorted-map model"
	if property == "C16" {
		p.Rule += "; every 12th case drives 2-5 types.Subspace values with prefix-related names over the shared params store through a real Context and compares them with one map per subspace"
	}
	if property == "C15" {
		p.Rule += "; every 6th case is a concurrent one: 2-4 client programs on one cachekv.Store under a seeded schedule, history checked with porcupine"
	}
	p.Rule += "; distinct = distinct trace digest; non-trivial = at least one write and one read/iteration (concurrent: >= 2 clients and >= 4 operations)"
	p.Assumptions = []string{
		"gas and trace wrappers are exercised at the top of a stack or directly under a prefix store (the shapes types.Context and types.Subspace build); below a cache wrapper their side effects depend on read caching, which no statement fixes",
		"an iterator yields exactly the overlay it was created on as long as later writes land in caching wrappers; once a write reaches a base store under an open iterator the two-sided rule applies (every yielded pair is a value the key held since the iterator was opened; untouched keys exactly once)",
		"the serialising scheduler hides data races from the race detector; a separate -race stress runs in the thorough tier",
	}
	return p
}

var keyAlpha = [][]byte{{}, []byte("a"), []byte("b"), []byte("ab"), []byte("abc"), []byte("b\x00"), {0xff}, {0xff, 0xff}, []byte("a\xff"), {0x00}, []byte("ba"), []byte("c")}

var prefixes = [][]byte{[]byte("a"), []byte("ab"), {0xff}, {0xff, 0xff}, []byte("b"), []byte("p/"), {0x00}, []byte("a\xff")}

func pickKey(r *core.Rng, nKeys int) []byte {
	return keyAlpha[r.Intn(nKeys)]
}

func Generate(property, tier string, seed uint64, idx uint64) *Trace {
	r := core.NewRng(seed)
	tr := &Trace{Engine: "kvsim", Property: property, Seed: seed, Mode: "seq"}
	if property == "C15" && idx%6 == 5 {
		return genConc(r, tr, tier)
	}
	if property == "C16" && idx%12 == 11 {
		return genSubspace(r, tr)
	}
	nKeys := r.Range(3, len(keyAlpha))
	// ---- tree
	writesDuringIter := r.Chance(0.3)
	baseKind := "base"
	if writesDuringIter || r.Chance(0.3) {
		baseKind = "iavl"
	}
	tr.Nodes = append(tr.Nodes, Node{Kind: baseKind, Parent: -1})
	top := 0
	depth := r.Range(1, 4)
	add := func(n Node) int {
		tr.Nodes = append(tr.Nodes, n)
		return len(tr.Nodes) - 1
	}
	var opNodes []int // nodes operations may address
	if property == "C15" {
		// cache wrappers to any depth, sometimes a prefix in between, sometimes a cachemulti beside
		for d := 0; d < depth; d++ {
			if r.Chance(0.15) {
				top = add(Node{Kind: "prefix", Parent: top, Prefix: *hs(prefixes[r.Intn(len(prefixes))])})
			}
			top = add(Node{Kind: "cache", Parent: top})
			opNodes = append(opNodes, top)
			if r.Chance(0.25) {
				// a sibling wrapper of the same parent that is never written: discarding leaves no effect
				sib := add(Node{Kind: "cache", Parent: tr.Nodes[top].Parent})
				opNodes = append(opNodes, sib)
			}
		}
		opNodes = append(opNodes, 0)
		if r.Chance(0.2) {
			m := add(Node{Kind: "multi", Parent: -1, Subs: r.Range(1, 3)})
			opNodes = append(opNodes, m, m)
			for lv := 0; lv < 2 && r.Chance(0.5); lv++ {
				// cache multistores stacked on it (CacheMultiStore() of a cache multistore), built before anything is used
				m = add(Node{Kind: "multi", Parent: m, Subs: tr.Nodes[m].Subs})
				opNodes = append(opNodes, m, m)
			}
		}
	} else {
		// C16: prefix / gas / trace over 0-2 cache wrappers
		for d := 0; d < r.Range(0, 2); d++ {
			top = add(Node{Kind: "cache", Parent: top})
			opNodes = append(opNodes, top)
		}
		opNodes = append(opNodes, 0)
		nTop := r.Range(1, 3)
		for i := 0; i < nTop; i++ {
			under := top
			switch r.Pick([]int{4, 3, 3, 2, 2}) {
			case 0: // prefix (maybe nested, maybe cache on top)
				p := add(Node{Kind: "prefix", Parent: under, Prefix: *hs(prefixes[r.Intn(len(prefixes))])})
				opNodes = append(opNodes, p, p)
				if r.Chance(0.3) {
					p2 := add(Node{Kind: "prefix", Parent: p, Prefix: *hs(prefixes[r.Intn(len(prefixes))])})
					opNodes = append(opNodes, p2)
				}
				if r.Chance(0.3) {
					c := add(Node{Kind: "cache", Parent: p})
					opNodes = append(opNodes, c)
				}
			case 1: // gas on top
				g := add(gasNode(r, under))
				opNodes = append(opNodes, g, g, g)
			case 2: // trace on top
				t := add(Node{Kind: "trace", Parent: under, FailWrite: failAt(r), TraceCtx: r.Chance(0.5)})
				opNodes = append(opNodes, t, t, t)
			case 3: // prefix over gas (the Subspace shape)
				g := add(gasNode(r, under))
				p := add(Node{Kind: "prefix", Parent: g, Prefix: *hs(prefixes[r.Intn(len(prefixes))])})
				opNodes = append(opNodes, p, p, p, g)
			case 4: // gas over prefix
				p := add(Node{Kind: "prefix", Parent: under, Prefix: *hs(prefixes[r.Intn(len(prefixes))])})
				g := add(gasNode(r, p))
				opNodes = append(opNodes, g, g, p)
			}
		}
	}
	// ---- program
	nOps := r.Range(5, 60)
	if tier == "thorough" && r.Chance(0.2) {
		nOps = r.Range(60, 200)
	}
	ctr := 0
	type openIt struct{ id, node int }
	var open []openIt
	nextIt := 1
	metered := func(n int) bool { // node whose iterators need an exact ledger / trace: no writes while they are open
		k := tr.Nodes[n].Kind
		if k == "gas" || k == "trace" {
			return true
		}
		if k == "prefix" && tr.Nodes[n].Parent >= 0 && tr.Nodes[tr.Nodes[n].Parent].Kind == "gas" {
			return true
		}
		return false
	}
	// Usage contract of a caching wrapper (what the statement means by "the parent is unchanged until
	// Write"): nobody changes a store underneath a wrapper that already holds reads of it. So the view of
	// node x may change (a direct set/delete on x, or a child's Write into x) only while every other
	// cache wrapper above x is clean, i.e. unused since it was created or last written.
	touched := map[int]bool{}
	isAbove := func(d, x int) bool { // d wraps x, directly or not
		for y := tr.Nodes[d].Parent; y >= 0; y = tr.Nodes[y].Parent {
			if y == x {
				return true
			}
		}
		return false
	}
	mayChangeView := func(x, exceptSubtree int) bool {
		for d := range tr.Nodes {
			if tr.Nodes[d].Kind != "cache" || !touched[d] || !isAbove(d, x) {
				continue
			}
			if exceptSubtree >= 0 && (d == exceptSubtree || isAbove(d, exceptSubtree)) {
				continue
			}
			return false
		}
		return true
	}
	landing := func(n int) int {
		for {
			switch tr.Nodes[n].Kind {
			case "prefix", "gas", "trace":
				n = tr.Nodes[n].Parent
			default:
				return n
			}
		}
	}
	touchPath := func(n int) {
		for y := n; y >= 0; y = tr.Nodes[y].Parent {
			if tr.Nodes[y].Kind == "cache" {
				touched[y] = true
			}
		}
	}
	for i := 0; i < nOps; i++ {
		n := opNodes[r.Intn(len(opNodes))]
		sub := 0
		if tr.Nodes[n].Kind == "multi" {
			sub = r.Intn(tr.Nodes[n].Subs)
		}
		before := len(tr.Ops)
		defer func() {}()
		_ = before
		if property == "C16" && r.Chance(0.05) {
			switch nd := tr.Nodes[n]; {
			case nd.Kind == "gas" && nd.LimitAfterOp == 0:
				amt := []uint64{0, 1, 1000, 1 << 63, 1<<63 + 1, 0xC000000000000000, ^uint64(0), ^uint64(0) - 1}[r.Intn(8)]
				tr.Ops = append(tr.Ops, Op{K: "consume", N: n, Amount: amt})
				continue
			case nd.Kind == "trace" && nd.TraceCtx:
				tr.Ops = append(tr.Ops, Op{K: "tctx", N: n})
				continue
			}
		}
		canWrite := len(open) == 0 || (writesDuringIter && func() bool {
			for _, o := range open {
				if metered(o.node) {
					return false
				}
			}
			return true
		}())
		switch r.Pick([]int{18, 8, 22, 8, 8, 14, 5}) {
		case 0:
			tr.Ops = append(tr.Ops, Op{K: "get", N: n, Sub: sub, Key: hs(pickKey(r, nKeys))})
		case 1:
			tr.Ops = append(tr.Ops, Op{K: "has", N: n, Sub: sub, Key: hs(pickKey(r, nKeys))})
		case 2:
			if !canWrite || !mayChangeView(landing(n), -1) {
				continue
			}
			ctr++
			v := []byte(fmt.Sprintf("v%d", ctr))
			switch r.Pick([]int{10, 1, 1}) {
			case 1:
				v = []byte{}
			case 2:
				v = make([]byte, r.Range(20, 90))
			}
			tr.Ops = append(tr.Ops, Op{K: "set", N: n, Sub: sub, Key: hs(pickKey(r, nKeys)), Val: hs(v)})
		case 3:
			if !canWrite || !mayChangeView(landing(n), -1) {
				continue
			}
			tr.Ops = append(tr.Ops, Op{K: "del", N: n, Sub: sub, Key: hs(pickKey(r, nKeys))})
		case 4:
			if len(open) >= 3 {
				continue
			}
			op := Op{K: "iopen", N: n, Sub: sub, It: nextIt, Desc: r.Chance(0.4)}
			if !r.Chance(0.4) {
				op.Start = hs(pickKey(r, len(keyAlpha)))
			}
			if !r.Chance(0.4) {
				op.End = hs(pickKey(r, len(keyAlpha)))
			}
			tr.Ops = append(tr.Ops, op)
			open = append(open, openIt{nextIt, n})
			nextIt++
		case 5:
			if len(open) == 0 {
				continue
			}
			oi := r.Intn(len(open))
			o := open[oi]
			switch r.Pick([]int{3, 3, 5, 2, 2}) {
			case 0:
				tr.Ops = append(tr.Ops, Op{K: "ikey", It: o.id, N: o.node})
			case 1:
				tr.Ops = append(tr.Ops, Op{K: "ival", It: o.id, N: o.node})
			case 2:
				tr.Ops = append(tr.Ops, Op{K: "ikey", It: o.id, N: o.node}, Op{K: "ival", It: o.id, N: o.node}, Op{K: "inext", It: o.id, N: o.node})
			case 3:
				tr.Ops = append(tr.Ops, Op{K: "ivalid", It: o.id, N: o.node})
			case 4:
				tr.Ops = append(tr.Ops, Op{K: "iclose", It: o.id, N: o.node})
				open = append(open[:oi], open[oi+1:]...)
			}
		case 6:
			if !canWrite {
				continue
			}
			k := tr.Nodes[n].Kind
			if k == "multi" {
				// its substores sit on MemDB, whose iterators read values lazily: no Write while one of them is open
				busy := false
				for _, o := range open {
					busy = busy || o.node == n
				}
				if !busy {
					tr.Ops = append(tr.Ops, Op{K: "write", N: n})
				}
			}
			if k == "cache" && mayChangeView(landing(tr.Nodes[n].Parent), n) {
				tr.Ops = append(tr.Ops, Op{K: "write", N: n})
				touched[n] = false
				continue
			}
		}
		if len(tr.Ops) > before && tr.Nodes[n].Kind != "multi" {
			touchPath(n)
		}
	}
	// drain every open iterator to the end, then a full scan of every node in both directions
	for _, o := range open {
		for j := 0; j < len(keyAlpha)+2; j++ {
			tr.Ops = append(tr.Ops, Op{K: "ikey", It: o.id, N: o.node}, Op{K: "ival", It: o.id, N: o.node}, Op{K: "inext", It: o.id, N: o.node})
		}
		tr.Ops = append(tr.Ops, Op{K: "ivalid", It: o.id, N: o.node}, Op{K: "iclose", It: o.id, N: o.node})
	}
	for _, n := range opNodes {
		if r.Chance(0.5) {
			continue
		}
		sub := 0
		if tr.Nodes[n].Kind == "multi" {
			sub = r.Intn(tr.Nodes[n].Subs)
		}
		desc := r.Chance(0.5)
		tr.Ops = append(tr.Ops, Op{K: "iopen", N: n, Sub: sub, It: nextIt, Desc: desc})
		for j := 0; j < len(keyAlpha)+2; j++ {
			tr.Ops = append(tr.Ops, Op{K: "ikey", It: nextIt, N: n}, Op{K: "ival", It: nextIt, N: n}, Op{K: "inext", It: nextIt, N: n})
		}
		tr.Ops = append(tr.Ops, Op{K: "ivalid", It: nextIt, N: n}, Op{K: "iclose", It: nextIt, N: n})
		nextIt++
	}
	return tr
}

func gasNode(r *core.Rng, parent int) Node {
	n := Node{Kind: "gas", Parent: parent}
	switch r.Pick([]int{3, 6, 1}) {
	case 0: // infinite
	case 1: // a limit somewhere inside the program's cost
		n.GasLimit = uint64(r.Range(1000, 120000))
		if r.Chance(0.5) {
			// exactly on a boundary: the limit equals the consumption after some operation of the program
			n.GasLimit = 0
			n.LimitAfterOp = r.Range(1, 40)
		}
	case 2: // close to the top of the range: the total must be reported as overflowing, not wrap
		n.GasLimit = 0
		n.GasStart = ^uint64(0) - uint64(r.Range(0, 60000))
	}
	return n
}

func failAt(r *core.Rng) int {
	if r.Chance(0.4) {
		return r.Range(1, 40)
	}
	return 0
}

func genConc(r *core.Rng, tr *Trace, tier string) *Trace {
	tr.Mode = "conc"
	nc := r.Range(2, 4)
	keys := [][]byte{[]byte("a"), []byte("b"), []byte("ab")}
	nk := r.Range(1, 3)
	for i := 0; i < nk; i++ {
		if r.Chance(0.5) {
			tr.Preload = append(tr.Preload, Op{K: "set", Key: hs(keys[i]), Val: hs([]byte(fmt.Sprintf("p%d", i)))})
		}
	}
	ctr := 0
	for c := 0; c < nc; c++ {
		n := r.Range(2, 6)
		var prog []Op
		for i := 0; i < n; i++ {
			k := keys[r.Intn(nk)]
			switch r.Pick([]int{5, 2, 5, 2, 2}) {
			case 4:
				prog = append(prog, Op{K: "write"})
			case 0:
				prog = append(prog, Op{K: "get", Key: hs(k)})
			case 1:
				prog = append(prog, Op{K: "has", Key: hs(k)})
			case 2:
				ctr++
				prog = append(prog, Op{K: "set", Key: hs(k), Val: hs([]byte(fmt.Sprintf("c%dv%d", c, ctr)))})
			case 3:
				prog = append(prog, Op{K: "del", Key: hs(k)})
			}
		}
		tr.Clients = append(tr.Clients, prog)
	}
	// the schedule is part of the trace: explicit choices, so that it can be shrunk and replayed
	n := 0
	for _, p := range tr.Clients {
		n += len(p)*4 + 2
	}
	for i := 0; i < n; i++ {
		tr.Sched = append(tr.Sched, r.Intn(1000))
	}
	return tr
}

func (Engine) Generate(property, tier string, seed uint64, idx uint64) []byte {
	return Generate(property, tier, seed, idx).Marshal()
}

func (Engine) Execute(trace []byte) (*core.Result, error) {
	tr, err := Unmarshal(trace)
	if err != nil {
		return nil, err
	}
	if tr.Mode == "conc" {
		return executeConc(tr)
	}
	if tr.Mode == "subspace" {
		return executeSubspace(tr)
	}
	return executeSeq(tr)
}

func (Engine) Sample(trace []byte) interface{} {
	tr, err := Unmarshal(trace)
	if err != nil {
		return string(trace)
	}
	if tr.Mode == "subspace" {
		return map[string]interface{}{"mode": "subspace", "subspaces": tr.Sub}
	}
	if tr.Mode == "conc" {
		return map[string]interface{}{"mode": "conc", "clients": tr.Clients, "preload": tr.Preload, "schedule_len": len(tr.Sched)}
	}
	ops := tr.Ops
	if len(ops) > 16 {
		ops = ops[:16]
	}
	return map[string]interface{}{"mode": "seq", "nodes": tr.Nodes, "ops": len(tr.Ops), "first_ops": ops}
}

func (Engine) Shrink(trace []byte, keep func([]byte) bool, sb core.ShrinkBudget) []byte {
	tr, err := Unmarshal(trace)
	if err != nil {
		return trace
	}
	b := core.NewBudget(sb)
	try := func(c *Trace) bool {
		if b.Exhausted() {
			return false
		}
		b.Used++
		return keep(c.Marshal())
	}
	if tr.Mode == "conc" {
		// drop whole clients, then single operations, then simplify the schedule to zeros
		for c := len(tr.Clients) - 1; c >= 0 && len(tr.Clients) > 1; c-- {
			cand := tr.Clone()
			cand.Clients = append(cand.Clients[:c], cand.Clients[c+1:]...)
			if try(cand) {
				tr = cand
			}
		}
		for c := range tr.Clients {
			for i := len(tr.Clients[c]) - 1; i >= 0; i-- {
				cand := tr.Clone()
				cand.Clients[c] = append(cand.Clients[c][:i], cand.Clients[c][i+1:]...)
				if try(cand) {
					tr = cand
				}
			}
		}
		for i := range tr.Sched {
			if tr.Sched[i] != 0 {
				cand := tr.Clone()
				cand.Sched[i] = 0
				if try(cand) {
					tr = cand
				}
			}
		}
		return tr.Marshal()
	}
	if tr.Mode == "subspace" && tr.Sub != nil {
		n := len(tr.Sub.Ops)
		build := func(k []int) *Trace {
			c := tr.Clone()
			c.Sub.Ops = nil
			for _, i := range k {
				c.Sub.Ops = append(c.Sub.Ops, tr.Sub.Ops[i])
			}
			return c
		}
		return build(core.DDMin(n, func(k []int) bool { return try(build(k)) }, b)).Marshal()
	}
	n := len(tr.Ops)
	build := func(k []int) *Trace {
		c := tr.Clone()
		c.Ops = nil
		for _, i := range k {
			c.Ops = append(c.Ops, tr.Ops[i])
		}
		return c
	}
	k := core.DDMin(n, func(k []int) bool { return try(build(k)) }, b)
	tr = build(k)
	return tr.Marshal()
}
