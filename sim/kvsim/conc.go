package kvsim

import (
	"io"
	"crypto/sha256"
	"encoding/hex"
	"fmt"
	"sort"
	"sync"
	"time"

	"github.com/anishathalye/porcupine"

	"github.com/pokt-network/posmint/store/cachekv"
	stypes "github.com/pokt-network/posmint/store/types"

	"verifsim/core"
)

// Concurrent mode (C15): several client goroutines issue Get/Has/Set/Delete on ONE
// cachekv.Store. The goroutines are real but parked: before every mutex acquisition
// (hook simYield in /repo, build tag verif) and inside every call into the parent store
// (which the simulator owns) a client parks, and the seeded scheduler releases exactly
// one runnable client at a time. The recorded invoke/return history, stamped with the
// scheduler's event counter, is checked for linearizability against a register-map
// model with porcupine.

// yieldParent is the simulator-owned parent store: a plain map that parks the caller on every call.
type yieldParent struct {
	m     map[string][]byte
	sched *scheduler
	free  func() bool // is the wrapper's mutex free right now?
}

// yield parks the caller inside a parent call only if it does NOT hold the wrapper's mutex. While the
// mutex is held nobody else can enter the wrapper anyway, so parking there adds no interleaving - and a
// parked client that holds no lock can never block a released one, so the scheduler needs no timeouts.
func (p *yieldParent) yield() {
	if p.free != nil && p.free() {
		p.sched.park("parent")
	}
}

func (p *yieldParent) GetStoreType() stypes.StoreType { return stypes.StoreTypeDB }
func (p *yieldParent) CacheWrap() stypes.CacheWrap      { panic("not used") }
func (p *yieldParent) CacheWrapWithTrace(_ io.Writer, _ stypes.TraceContext) stypes.CacheWrap {
	panic("not used")
}
func (p *yieldParent) Get(key []byte) []byte {
	p.yield()
	v, ok := p.m[string(key)]
	if !ok {
		return nil
	}
	return append([]byte{}, v...)
}
func (p *yieldParent) Has(key []byte) bool {
	p.yield()
	_, ok := p.m[string(key)]
	return ok
}
func (p *yieldParent) Set(key, value []byte) {
	p.yield()
	p.m[string(key)] = append([]byte{}, value...)
}
func (p *yieldParent) Delete(key []byte) {
	p.yield()
	delete(p.m, string(key))
}
func (p *yieldParent) Iterator(start, end []byte) stypes.Iterator        { panic("not used") }
func (p *yieldParent) ReverseIterator(start, end []byte) stypes.Iterator { panic("not used") }

type parkEvent struct {
	client int
	point  string // opstart prelock parent done
}

type scheduler struct {
	mu       sync.Mutex
	cur      int // the one client that is running (-1: none)
	events   chan parkEvent
	resume   []chan struct{}
	active   bool
	seq      int64
}

// park is called by the running client at a scheduling point.
func (s *scheduler) park(point string) {
	if !s.active {
		return
	}
	c := s.cur
	if c < 0 {
		return
	}
	s.events <- parkEvent{c, point}
	<-s.resume[c]
}

type histOp struct {
	client   int
	kind     string
	key      string
	val      string // written value, or value read
	found    bool
	call, ret int64
}

type mapInput struct {
	op  string
	key string
	val string
}
type mapOutput struct {
	val   string
	found bool
}

var registerModel = porcupine.Model{
	Partition: func(history []porcupine.Operation) [][]porcupine.Operation {
		m := map[string][]porcupine.Operation{}
		var keys []string
		for _, o := range history {
			k := o.Input.(mapInput).key
			if _, ok := m[k]; !ok {
				keys = append(keys, k)
			}
			m[k] = append(m[k], o)
		}
		sort.Strings(keys)
		var out [][]porcupine.Operation
		for _, k := range keys {
			out = append(out, m[k])
		}
		return out
	},
	Init: func() interface{} { return mapOutput{} },
	Step: func(state, input, output interface{}) (bool, interface{}) {
		st := state.(mapOutput)
		in := input.(mapInput)
		out := output.(mapOutput)
		switch in.op {
		case "set":
			return true, mapOutput{val: in.val, found: true}
		case "del":
			return true, mapOutput{}
		case "get":
			return out.found == st.found && (!st.found || out.val == st.val), st
		case "has":
			return out.found == st.found, st
		case "write":
			return true, st // flushing the overlay into the parent does not change what the wrapper shows
		}
		return false, st
	},
	Equal: func(a, b interface{}) bool { return a.(mapOutput) == b.(mapOutput) },
	DescribeOperation: func(input, output interface{}) string {
		in := input.(mapInput)
		out := output.(mapOutput)
		return fmt.Sprintf("%s(%x,%x)->(%x,%v)", in.op, in.key, in.val, out.val, out.found)
	},
}

func executeConc(tr *Trace) (*core.Result, error) {
	res := &core.Result{Stats: core.NewStats()}
	nc := len(tr.Clients)
	s := &scheduler{cur: -1, events: make(chan parkEvent), resume: make([]chan struct{}, nc)}
	for i := range s.resume {
		s.resume[i] = make(chan struct{})
	}
	parent := &yieldParent{m: map[string][]byte{}, sched: s}
	for _, op := range tr.Preload {
		if op.K == "set" {
			parent.m[string(unhexp(op.Key))] = unhexp(op.Val)
		}
	}
	store := cachekv.NewStore(parent)
	parent.free = store.SimMutexFree
	var hist []histOp
	cachekv.SimYield = func(st *cachekv.Store, op string) {
		if st == store {
			s.park("prelock")
		}
	}
	defer func() { cachekv.SimYield = nil }()
	s.active = true
	// clients
	for c := 0; c < nc; c++ {
		go func(c int) {
			<-s.resume[c] // wait to be started
			for _, op := range tr.Clients[c] {
				s.park("opstart")
				h := histOp{client: c, kind: op.K, key: string(unhexp(op.Key))}
				s.seq++
				h.call = s.seq
				func() {
					defer func() {
						if r := recover(); r != nil {
							h.kind = "panic"
							h.val = fmt.Sprint(r)
						}
					}()
					switch op.K {
					case "get":
						v := store.Get(unhexp(op.Key))
						h.val, h.found = string(v), v != nil
					case "has":
						h.found = store.Has(unhexp(op.Key))
					case "set":
						h.val = string(unhexp(op.Val))
						store.Set(unhexp(op.Key), unhexp(op.Val))
					case "del":
						store.Delete(unhexp(op.Key))
					case "write":
						store.Write()
					}
				}()
				s.seq++
				h.ret = s.seq
				hist = append(hist, h)
			}
			s.events <- parkEvent{c, "done"}
		}(c)
	}
	// scheduler
	state := make([]string, nc) // where each client is parked: "" = not started, opstart, prelock, parent, done, blocked
	for i := range state {
		state[i] = "new"
	}
	var schedule []int
	choice := 0
	next := func(n int) int {
		if n <= 1 {
			return 0
		}
		c := 0
		if choice < len(tr.Sched) {
			c = tr.Sched[choice]
		} else {
			c = int(core.SplitMix64(tr.Seed^uint64(choice)*0x9E3779B97F4A7C15) % 1000)
		}
		choice++
		if c < 0 {
			c = -c
		}
		return c % n
	}
	for {
		var runnable []int
		allDone := true
		for c := 0; c < nc; c++ {
			switch state[c] {
			case "done":
			case "prelock":
				allDone = false
				if store.SimMutexFree() {
					runnable = append(runnable, c)
				}
			default:
				allDone = false
				runnable = append(runnable, c)
			}
		}
		if allDone {
			break
		}
		if len(runnable) == 0 {
			res.Violations = append(res.Violations, core.Violation{Property: "C15", Oracle: "deadlock", Step: len(schedule),
				Detail: fmt.Sprintf("no client can proceed: states %v", state)})
			break
		}
		pick := runnable[next(len(runnable))]
		schedule = append(schedule, pick)
		res.Stats.Transition(fmt.Sprintf("%s>%d", state[pick], pick))
		s.cur = pick
		s.resume[pick] <- struct{}{}
		// the released client runs until its next scheduling point (it cannot block: no parked client holds the mutex)
		select {
		case ev := <-s.events:
			state[ev.client] = ev.point
		case <-time.After(60 * time.Second):
			return nil, fmt.Errorf("scheduler watchdog: client %d did not reach a scheduling point within 60 s (states %v)", pick, state)
		}
	}
	s.active = false
	s.cur = -1
	// closing reads by the harness, after every client has finished: a completed Set/Delete must still be visible
	// (nothing may have been dropped by a concurrent Write), and once more after a final Write through the parent
	closing := func(client int) {
		seenKey := map[string]bool{}
		var keys []string
		for _, prog := range tr.Clients {
			for _, op := range prog {
				if op.Key != nil && !seenKey[*op.Key] {
					seenKey[*op.Key] = true
					keys = append(keys, *op.Key)
				}
			}
		}
		sort.Strings(keys)
		for _, kh := range keys {
			k, _ := hex.DecodeString(kh)
			h := histOp{client: client, kind: "get", key: string(k)}
			s.seq++
			h.call = s.seq
			func() {
				defer func() {
					if r := recover(); r != nil {
						h.kind = "panic"
						h.val = fmt.Sprint(r)
					}
				}()
				v := store.Get(k)
				h.val, h.found = string(v), v != nil
			}()
			s.seq++
			h.ret = s.seq
			hist = append(hist, h)
		}
	}
	closing(nc + 1)
	func() {
		defer func() { recover() }()
		store.Write()
	}()
	closing(nc + 2)
	res.Stats.C("schedules", 1)
	res.Stats.C("scheduler_choices", int64(len(schedule)))
	res.Stats.C("client_ops", int64(len(hist)))
	// ---- history check
	var ops []porcupine.Operation
	for _, h := range hist {
		if h.kind == "panic" {
			res.Violations = append(res.Violations, core.Violation{Property: "C15", Oracle: "concurrent-op-panicked", Step: int(h.call),
				Detail: "an operation panicked under the schedule: " + h.val})
			continue
		}
		in := mapInput{op: h.kind, key: h.key}
		out := mapOutput{}
		switch h.kind {
		case "set":
			in.val = h.val
		case "get":
			out = mapOutput{val: h.val, found: h.found}
		case "has":
			out = mapOutput{found: h.found}
		}
		ops = append(ops, porcupine.Operation{ClientId: h.client, Input: in, Call: h.call, Output: out, Return: h.ret})
	}
	// the preloaded parent content is the initial state: express it as completed sets before everything else
	var pre []porcupine.Operation
	t := int64(-1000)
	for _, op := range tr.Preload {
		if op.K == "set" {
			pre = append(pre, porcupine.Operation{ClientId: nc, Input: mapInput{op: "set", key: string(unhexp(op.Key)), val: string(unhexp(op.Val))}, Call: t, Output: mapOutput{}, Return: t + 1})
			t += 2
		}
	}
	all := append(pre, ops...)
	switch porcupine.CheckOperationsTimeout(registerModel, all, 20*time.Second) {
	case porcupine.Illegal:
		res.Violations = append(res.Violations, core.Violation{Property: "C15", Oracle: "linearizability", Step: len(schedule),
			Attrs:  map[string]string{"clients": fmt.Sprint(nc)},
			Detail: fmt.Sprintf("the recorded history of %d operations by %d clients is not linearizable against a register-map model (schedule %v)", len(ops), nc, schedule)})
	case porcupine.Unknown:
		res.Stats.Probe("porcupine_timeout_inconclusive")
	default:
		res.Stats.C("histories_linearizable", 1)
	}
	// final state: after all clients are done, what the wrapper shows must be the result of the writes in
	// some linearization; checked by a closing read of every key appended to the history
	h := sha256.New()
	for _, o := range hist {
		fmt.Fprintf(h, "%d %s %x %x %v %d %d\n", o.client, o.kind, o.key, o.val, o.found, o.call, o.ret)
	}
	fmt.Fprintf(h, "%v", schedule)
	for _, v := range res.Violations {
		h.Write([]byte(v.Signature()))
	}
	res.Digest = hex.EncodeToString(h.Sum(nil)[:12])
	th := sha256.Sum256(tr.Marshal())
	res.TraceHash = hex.EncodeToString(th[:8])
	res.NonTrivial = len(hist) >= 4 && nc >= 2
	sh := sha256.Sum256([]byte(fmt.Sprint(schedule)))
	res.Stats.State("sched:" + hex.EncodeToString(sh[:6]))
	return res, nil
}
