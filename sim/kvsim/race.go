package kvsim

import (
	"fmt"
	"sync"

	dbm "github.com/tendermint/tm-db"

	"github.com/pokt-network/posmint/store/cachekv"
	"github.com/pokt-network/posmint/store/dbadapter"
)

// RaceStress hammers one cachekv.Store from several free-running goroutines with
// Get/Has/Set/Delete (the operations the statement names). Meaningful only in a binary
// built with -race: the detector prints "DATA RACE" and exits with status 66.
func RaceStress(rounds int) int {
	if rounds <= 0 {
		rounds = 20
	}
	for r := 0; r < rounds; r++ {
		st := cachekv.NewStore(dbadapter.Store{DB: dbm.NewMemDB()})
		var wg sync.WaitGroup
		for g := 0; g < 8; g++ {
			wg.Add(1)
			go func(g int) {
				defer wg.Done()
				for i := 0; i < 400; i++ {
					k := []byte{byte('a' + (i+g)%5)}
					switch (i + g) % 4 {
					case 0:
						st.Get(k)
					case 1:
						st.Has(k)
					case 2:
						st.Set(k, []byte(fmt.Sprintf("g%di%d", g, i)))
					case 3:
						st.Delete(k)
					}
				}
			}(g)
		}
		wg.Wait()
	}
	fmt.Println("race-stress: done,", rounds, "rounds x 8 goroutines x 400 operations")
	return 0
}
