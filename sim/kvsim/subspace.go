package kvsim

import (
	"crypto/sha256"
	"encoding/hex"
	"fmt"
	"sort"
	"strings"

	abci "github.com/tendermint/tendermint/abci/types"
	"github.com/tendermint/tendermint/libs/log"
	dbm "github.com/tendermint/tm-db"

	"github.com/pokt-network/posmint/store"
	sdk "github.com/pokt-network/posmint/types"

	"verifsim/core"
)

// Subspace mode (C16, mechanism "module parameters live in prefix stores over one shared params store"):
// several types.Subspace values with names that are prefixes of one another share the params store and its
// transient companion through a real Context (gas store + prefix store, exactly what the modules get); every
// operation is compared with one map per subspace, and after every operation the raw content of the two shared
// stores must be exactly the union of the per-subspace maps under "<name>/<key>".

type SubOp struct {
	K   string `json:"k"` // set update setsub get getraw has all modified commit
	S   int    `json:"s"`
	Key string `json:"key,omitempty"`
	Sub string `json:"sub,omitempty"`
	Val string `json:"val,omitempty"`
}

type SubTrace struct {
	Names []string `json:"names"`
	Keys  []string `json:"keys"` // registered in every subspace's key table (type string)
	Ops   []SubOp  `json:"ops"`
}

var subNames = []string{"p", "po", "pos", "posx", "pos0", "pos.", "a", "ab", "pos-", "P"}
var subKeys = []string{"K", "Ka", "MaxVal", "k1", "a", "z9"}

func genSubspace(r *core.Rng, tr *Trace) *Trace {
	tr.Mode = "subspace"
	st := &SubTrace{}
	perm := r.Perm(len(subNames))
	n := r.Range(2, 5)
	for i := 0; i < n; i++ {
		st.Names = append(st.Names, subNames[perm[i]])
	}
	if r.Chance(0.7) {
		// make sure two names are in the prefix relation
		st.Names[0], st.Names[1] = "pos", []string{"posx", "pos0", "po", "p"}[r.Intn(4)]
		for i := 2; i < len(st.Names); i++ {
			if st.Names[i] == st.Names[0] || st.Names[i] == st.Names[1] {
				st.Names[i] = fmt.Sprintf("m%d", i)
			}
		}
	}
	nk := r.Range(2, len(subKeys))
	st.Keys = append(st.Keys, subKeys[:nk]...)
	ctr := 0
	nops := r.Range(6, 40)
	for i := 0; i < nops; i++ {
		o := SubOp{S: r.Intn(n), Key: subKeys[r.Intn(nk)]}
		if r.Chance(0.04) {
			o.Key = "unregistered"
		}
		switch r.Pick([]int{8, 3, 3, 3, 2, 3, 6, 3, 2}) {
		case 0:
			ctr++
			o.K, o.Val = "set", fmt.Sprintf("v%d", ctr)
		case 1:
			ctr++
			o.K, o.Val = "update", fmt.Sprintf("\"u%d\"", ctr)
			if r.Chance(0.2) {
				o.Val = "{"
			}
		case 2:
			ctr++
			o.K, o.Sub, o.Val = "setsub", []string{"x", "y", "K"}[r.Intn(3)], fmt.Sprintf("s%d", ctr)
		case 3:
			o.K = "get"
		case 4:
			o.K = "getraw"
		case 5:
			o.K = "has"
		case 6:
			o.K = "all"
		case 7:
			o.K = "modified"
		case 8:
			o.K = "commit"
		}
		st.Ops = append(st.Ops, o)
	}
	st.Ops = append(st.Ops, SubOp{K: "all", S: 0}, SubOp{K: "all", S: 1})
	tr.Sub = st
	return tr
}

func executeSubspace(tr *Trace) (res *core.Result, err error) {
	res = &core.Result{Stats: core.NewStats()}
	st := tr.Sub
	if st == nil || len(st.Names) == 0 {
		return res, nil
	}
	var log_ []string
	viol := func(oracle string, step int, attrs map[string]string, f string, a ...interface{}) {
		v := core.Violation{Property: "C16", Oracle: oracle, Attrs: attrs, Step: step, Detail: fmt.Sprintf(f, a...)}
		for _, o := range res.Violations {
			if o.Signature() == v.Signature() {
				return
			}
		}
		res.Violations = append(res.Violations, v)
	}
	db := dbm.NewMemDB()
	ms := store.NewCommitMultiStore(db)
	ms.MountStoreWithDB(sdk.ParamsKey, sdk.StoreTypeIAVL, nil)
	ms.MountStoreWithDB(sdk.ParamsTKey, sdk.StoreTypeTransient, nil)
	if e := ms.LoadLatestVersion(); e != nil {
		return nil, e
	}
	ctx := sdk.NewContext(ms, abci.Header{}, false, log.NewNopLogger())
	subs := make([]sdk.Subspace, len(st.Names))
	model := make([]map[string]string, len(st.Names))
	modified := make([]map[string]bool, len(st.Names))
	registered := map[string]bool{}
	for i, name := range st.Names {
		var kt []interface{}
		for _, k := range st.Keys {
			kt = append(kt, []byte(k), "")
			registered[k] = true
		}
		subs[i] = sdk.NewSubspace(name).WithKeyTable(sdk.NewKeyTable(kt...))
		model[i] = map[string]string{}
		modified[i] = map[string]bool{}
	}
	dumpRaw := func(s sdk.KVStore) (out []string) {
		it := s.Iterator(nil, nil)
		defer it.Close()
		for ; it.Valid(); it.Next() {
			out = append(out, string(it.Key())+"="+string(it.Value()))
		}
		return
	}
	checkRaw := func(step int) {
		wm, wt := map[string]string{}, map[string]string{}
		for i, name := range st.Names {
			for k, v := range model[i] {
				wm[name+"/"+k] = v
			}
			for k := range modified[i] {
				wt[name+"/"+k] = ""
			}
		}
		inKeyOrder := func(m map[string]string) (out []string) {
			ks := make([]string, 0, len(m))
			for k := range m {
				ks = append(ks, k)
			}
			sort.Strings(ks)
			for _, k := range ks {
				out = append(out, k+"="+m[k])
			}
			return
		}
		want, wantT := inKeyOrder(wm), inKeyOrder(wt)
		if got := dumpRaw(ctx.KVStore(sdk.ParamsKey)); strings.Join(got, "\n") != strings.Join(want, "\n") {
			viol("subspace-shared-store", step, map[string]string{"store": "params"}, "the shared params store holds %q, the per-subspace maps give %q", got, want)
		}
		if got := dumpRaw(ctx.TransientStore(sdk.ParamsTKey)); strings.Join(got, "\n") != strings.Join(wantT, "\n") {
			viol("subspace-shared-store", step, map[string]string{"store": "transient"}, "the shared transient store holds %q, the per-subspace maps give %q", got, wantT)
		}
	}
	for step, o := range st.Ops {
		if o.S < 0 || o.S >= len(subs) {
			continue
		}
		s := subs[o.S]
		name := st.Names[o.S]
		key := []byte(o.Key)
		var pan string
		func() {
			defer func() {
				if r := recover(); r != nil {
					pan = fmt.Sprint(r)
				}
			}()
			switch o.K {
			case "set":
				s.Set(ctx, key, o.Val)
			case "update":
				e := s.Update(ctx, key, []byte(o.Val))
				wantErr := !strings.HasPrefix(o.Val, "\"")
				if (e != nil) != wantErr {
					viol("subspace-op", step, map[string]string{"op": "update"}, "Update(%s/%s, %s) returned %v", name, o.Key, o.Val, e)
				}
				if e == nil {
					pan = "" // handled below through the model
				}
			case "setsub":
				s.SetWithSubkey(ctx, key, []byte(o.Sub), o.Val)
			case "get":
				var out string
				had := false
				if s.Has(ctx, key) {
					had = true
					s.Get(ctx, key, &out)
				}
				want, ok := model[o.S][o.Key]
				if had != ok || (ok && fmt.Sprintf("%q", out) != want) {
					viol("subspace-op", step, map[string]string{"op": "get"}, "Get(%s/%s) = %q (present=%v), the model holds %s (present=%v)", name, o.Key, out, had, want, ok)
				}
			case "getraw":
				got := s.GetRaw(ctx, key)
				want, ok := model[o.S][o.Key]
				if (got != nil) != ok || string(got) != want {
					viol("subspace-op", step, map[string]string{"op": "getraw"}, "GetRaw(%s/%s) = %q, the model holds %q (present=%v)", name, o.Key, got, want, ok)
				}
			case "has":
				_, ok := model[o.S][o.Key]
				if got := s.Has(ctx, key); got != ok {
					viol("subspace-op", step, map[string]string{"op": "has"}, "Has(%s/%s) = %v, the model says %v", name, o.Key, got, ok)
				}
			case "modified":
				if got := s.Modified(ctx, key); got != modified[o.S][o.Key] {
					viol("subspace-op", step, map[string]string{"op": "modified"}, "Modified(%s/%s) = %v, the model says %v", name, o.Key, got, modified[o.S][o.Key])
				}
			case "all":
				got := s.GetAllParamKeys(ctx)
				var want []string
				for k := range model[o.S] {
					want = append(want, k)
				}
				sort.Strings(want)
				if strings.Join(got, "\n") != strings.Join(want, "\n") {
					viol("subspace-isolation", step, map[string]string{"op": "all"}, "GetAllParamKeys of subspace %q returned %q, it holds %q (subspaces: %q)", name, got, want, st.Names)
				}
				res.Stats.C("subspace_listings", 1)
			case "commit":
				ms.Commit()
				for i := range modified {
					modified[i] = map[string]bool{}
				}
			}
		}()
		// the model's side of the writes
		reg := registered[o.Key]
		switch o.K {
		case "set", "setsub", "update":
			if !reg {
				if pan == "" {
					viol("subspace-op", step, map[string]string{"op": o.K, "what": "unregistered-accepted"}, "%s of the unregistered key %q did not panic", o.K, o.Key)
				}
				pan = ""
				break
			}
			if pan != "" {
				break
			}
			switch o.K {
			case "set":
				model[o.S][o.Key] = fmt.Sprintf("%q", o.Val)
				modified[o.S][o.Key] = true
			case "setsub":
				model[o.S][o.Key+"/"+o.Sub] = fmt.Sprintf("%q", o.Val)
				modified[o.S][o.Key+"/"+o.Sub] = true
			case "update":
				if strings.HasPrefix(o.Val, "\"") {
					model[o.S][o.Key] = o.Val
					modified[o.S][o.Key] = true
				}
			}
		}
		if pan != "" {
			viol("subspace-op", step, map[string]string{"op": o.K, "what": "panic"}, "%s on subspace %q key %q panicked: %s", o.K, name, o.Key, pan)
			break
		}
		log_ = append(log_, fmt.Sprintf("%d %s %s/%s", step, o.K, name, o.Key))
		checkRaw(step)
		res.Stats.C("subspace_ops", 1)
		res.Stats.State(fmt.Sprintf("subspaces=%d keys=%d", len(st.Names), len(model[o.S])))
	}
	h := sha256.New()
	for _, l := range log_ {
		h.Write([]byte(l + "\n"))
	}
	for _, v := range res.Violations {
		h.Write([]byte(v.Signature()))
	}
	res.Digest = hex.EncodeToString(h.Sum(nil)[:12])
	th := sha256.Sum256(tr.Marshal())
	res.TraceHash = hex.EncodeToString(th[:8])
	res.NonTrivial = len(st.Ops) >= 4
	return res, nil
}
