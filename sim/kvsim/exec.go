package kvsim

import (
	"bytes"
	"crypto/sha256"
	"encoding/base64"
	"encoding/hex"
	"encoding/json"
	"errors"
	"fmt"
	"io"
	"math"
	"strings"

	"github.com/tendermint/iavl"
	dbm "github.com/tendermint/tm-db"

	"github.com/pokt-network/posmint/store/cachekv"
	"github.com/pokt-network/posmint/store/cachemulti"
	"github.com/pokt-network/posmint/store/dbadapter"
	"github.com/pokt-network/posmint/store/gaskv"
	iavlstore "github.com/pokt-network/posmint/store/iavl"
	"github.com/pokt-network/posmint/store/prefix"
	"github.com/pokt-network/posmint/store/tracekv"
	stypes "github.com/pokt-network/posmint/store/types"

	"verifsim/core"
)

// failWriter refuses, once, the write that would start its failAt-th line (0 = never). Counting lines rather
// than Write calls keeps the fault independent of how many calls the trace store uses per line.
type failWriter struct {
	buf    bytes.Buffer
	lines  int // complete lines written
	mid    bool // the last write left a line unfinished
	failed bool
	failAt int
}

// wouldFail: the next write that starts a line will be refused.
func (w *failWriter) wouldFail() bool {
	return w.failAt > 0 && !w.failed && !w.mid && w.lines == w.failAt-1
}

func (w *failWriter) Write(p []byte) (int, error) {
	if w.wouldFail() {
		w.failed = true
		return 0, errors.New("simulated trace writer failure")
	}
	for _, b := range p {
		if b == '\n' {
			w.lines++
		}
	}
	if len(p) > 0 {
		w.mid = p[len(p)-1] != '\n'
	}
	return w.buf.Write(p)
}

// ledger is the independent gas account: the documented table applied to the operations performed.
type ledger struct {
	infinite bool
	limit    uint64
	consumed uint64
	dead     string // set after an overflow: the meter's state is unspecified afterwards
}

func (l *ledger) consume(a uint64) string {
	if math.MaxUint64-l.consumed < a {
		l.dead = "overflow"
		return "overflow"
	}
	l.consumed += a
	if !l.infinite && l.consumed > l.limit {
		return "oog"
	}
	return ""
}

type iterState struct {
	real   stypes.Iterator
	node   int
	sub    int
	snap   []kv
	pos    int
	closed bool
	weak   bool                // a write happened while it was open: two-sided rule
	touch  map[string]bool     // keys (in this node's key space) written while open
	hist   map[string][][]byte // values those keys had in this node's view since open (nil entry = absent)
	last   []byte
	desc   bool
	start, end []byte
	yieldedUntouched int
	snapVal map[string][]byte // full key -> value at open
	yielded map[string]bool
	keysReadEveryStep bool // the program read Key() at every position so far (needed to know what was yielded)
	readThisPos bool
	curKey  []byte            // key last read at the current position (weak rule pairs Key and Value)
}

type exec struct {
	tr      *Trace
	res     *core.Result
	real    []stypes.KVStore
	caches  []*cachekv.Store
	multis  []stypes.CacheMultiStore
	mreads  map[[2]int]map[string]bool // (multi node, substore) -> keys read there ("*": iterated)
	mkeys   [][]stypes.StoreKey
	model   []mNode
	mbases  [][]*mBase // for multi nodes
	rbases  [][]stypes.KVStore
	mcaches [][]*mCache
	ledgers []*ledger
	meters  []stypes.GasMeter
	writers []*failWriter
	expTrace [][]traceLine
	tctx     map[int]stypes.TraceContext // trace node -> the live context map it was built with
	iters   map[int]*iterState
	log     []string
	step    int
	stop    bool
	gascfg  stypes.GasConfig
	touched map[int]bool // cache wrappers holding reads/writes since they were created or last written
}

type traceLine struct {
	Operation string `json:"operation"`
	Key       string `json:"key"`
	Value     string `json:"value"`
	Meta      string `json:"-"` // the line's metadata object, printed with sorted keys
}

type traceLineJSON struct {
	Operation string                 `json:"operation"`
	Key       string                 `json:"key"`
	Value     string                 `json:"value"`
	Metadata  map[string]interface{} `json:"metadata"`
}

// metaOf: what the metadata of a line written now by trace node n looks like once decoded.
func (e *exec) metaOf(n int) string {
	if e.tctx == nil || e.tctx[n] == nil {
		return fmt.Sprint(map[string]interface{}(nil))
	}
	m := map[string]interface{}{}
	for k, v := range e.tctx[n] {
		if i, ok := v.(int); ok {
			m[k] = float64(i)
		} else {
			m[k] = v
		}
	}
	return fmt.Sprint(m)
}

func (e *exec) viol(prop, oracle string, attrs map[string]string, f string, a ...interface{}) {
	v := core.Violation{Property: prop, Oracle: oracle, Attrs: attrs, Step: e.step, Detail: fmt.Sprintf(f, a...)}
	for _, o := range e.res.Violations {
		if o.Signature() == v.Signature() {
			return
		}
	}
	e.res.Violations = append(e.res.Violations, v)
}

// propOf attributes a mismatch to C15 (cache overlay semantics) or C16 (prefix / gas / trace transparency).
func (e *exec) propOf(n int) string {
	for x := n; x >= 0; x = e.tr.Nodes[x].Parent {
		switch e.tr.Nodes[x].Kind {
		case "prefix", "gas", "trace":
			return "C16"
		}
	}
	return "C15"
}

func (e *exec) stackOf(n int) string {
	var parts []string
	for x := n; x >= 0; x = e.tr.Nodes[x].Parent {
		parts = append(parts, e.tr.Nodes[x].Kind)
	}
	return strings.Join(parts, ">")
}

func newIAVL() stypes.KVStore {
	tree := iavl.NewMutableTree(dbm.NewMemDB(), 100)
	return iavlstore.UnsafeNewStore(tree, 0, 0)
}

func (e *exec) build() error {
	n := len(e.tr.Nodes)
	e.real = make([]stypes.KVStore, n)
	e.caches = make([]*cachekv.Store, n)
	e.multis = make([]stypes.CacheMultiStore, n)
	e.mkeys = make([][]stypes.StoreKey, n)
	e.model = make([]mNode, n)
	e.mbases = make([][]*mBase, n)
	e.rbases = make([][]stypes.KVStore, n)
	e.mcaches = make([][]*mCache, n)
	e.ledgers = make([]*ledger, n)
	e.meters = make([]stypes.GasMeter, n)
	e.writers = make([]*failWriter, n)
	e.expTrace = make([][]traceLine, n)
	e.gascfg = stypes.KVGasConfig()
	for i, nd := range e.tr.Nodes {
		if nd.Parent >= i {
			return fmt.Errorf("node %d: parent %d not before it", i, nd.Parent)
		}
		switch nd.Kind {
		case "base":
			e.real[i] = dbadapter.Store{DB: dbm.NewMemDB()}
			e.model[i] = &mBase{m: map[string][]byte{}}
		case "iavl":
			e.real[i] = newIAVL()
			e.model[i] = &mBase{m: map[string][]byte{}}
		case "cache":
			c := cachekv.NewStore(e.real[nd.Parent])
			e.real[i], e.caches[i] = c, c
			e.model[i] = &mCache{parent: e.model[nd.Parent], d: map[string]dirty{}}
		case "prefix":
			p, _ := hex.DecodeString(nd.Prefix)
			// callers hand prefix stores slices with spare capacity (types.Subspace does): every other prefix
			// node gets one, so that code appending to the prefix in place is exercised
			rp := p
			if i%2 == 1 {
				rp = make([]byte, len(p), len(p)+16)
				copy(rp, p)
			}
			e.real[i] = prefix.NewStore(e.real[nd.Parent], rp)
			e.model[i] = &mPrefix{parent: e.model[nd.Parent], p: append([]byte{}, p...)}
		case "gas":
			var m stypes.GasMeter
			l := &ledger{}
			if nd.GasLimit == 0 {
				m = stypes.NewInfiniteGasMeter()
				l.infinite = true
			} else {
				m = stypes.NewGasMeter(nd.GasLimit)
				l.limit = nd.GasLimit
			}
			if nd.GasStart > 0 {
				func() {
					defer func() { recover() }()
					m.ConsumeGas(nd.GasStart, "pre")
				}()
				l.consume(nd.GasStart)
			}
			e.meters[i], e.ledgers[i] = m, l
			e.real[i] = gaskv.NewStore(e.real[nd.Parent], m, e.gascfg)
			e.model[i] = &mPass{parent: e.model[nd.Parent]}
		case "trace":
			w := &failWriter{failAt: nd.FailWrite}
			e.writers[i] = w
			var tc stypes.TraceContext
			if nd.TraceCtx {
				if e.tctx == nil {
					e.tctx = map[int]stypes.TraceContext{}
				}
				tc = stypes.TraceContext(map[string]interface{}{"blockHeight": 0, "store": "s"})
				e.tctx[i] = tc
			}
			e.real[i] = tracekv.NewStore(e.real[nd.Parent], w, tc)
			e.model[i] = &mPass{parent: e.model[nd.Parent]}
		case "multi":
			if nd.Parent >= 0 {
				// a cache multistore OF a cache multistore (what sdk.Context.CacheContext gives inside a transaction)
				if e.tr.Nodes[nd.Parent].Kind != "multi" {
					return fmt.Errorf("node %d: a multi node sits on a multi node or on nothing", i)
				}
				e.multis[i] = e.multis[nd.Parent].CacheMultiStore()
				e.mkeys[i] = e.mkeys[nd.Parent]
				for s := range e.mkeys[i] {
					e.mcaches[i] = append(e.mcaches[i], &mCache{parent: e.mcaches[nd.Parent][s], d: map[string]dirty{}})
				}
				break
			}
			stores := map[stypes.StoreKey]stypes.CacheWrapper{}
			names := map[string]stypes.StoreKey{}
			for s := 0; s < nd.Subs; s++ {
				key := stypes.NewKVStoreKey(fmt.Sprintf("sub%d", s))
				base := dbadapter.Store{DB: dbm.NewMemDB()}
				stores[key] = base
				names[key.Name()] = key
				e.mkeys[i] = append(e.mkeys[i], key)
				e.rbases[i] = append(e.rbases[i], base)
				mb := &mBase{m: map[string][]byte{}}
				e.mbases[i] = append(e.mbases[i], mb)
				e.mcaches[i] = append(e.mcaches[i], &mCache{parent: mb, d: map[string]dirty{}})
			}
			e.multis[i] = cachemulti.NewStore(dbm.NewMemDB(), stores, names, nil, nil)
		default:
			return fmt.Errorf("unknown node kind %q", nd.Kind)
		}
	}
	return nil
}

func (e *exec) realStore(op *Op) stypes.KVStore {
	if e.tr.Nodes[op.N].Kind == "multi" {
		return e.multis[op.N].GetKVStore(e.mkeys[op.N][op.Sub%len(e.mkeys[op.N])])
	}
	return e.real[op.N]
}

func (e *exec) modelStore(op *Op) mNode {
	if e.tr.Nodes[op.N].Kind == "multi" {
		return e.mcaches[op.N][op.Sub%len(e.mcaches[op.N])]
	}
	return e.model[op.N]
}

// gasFor returns the ledger that meters an operation issued on node n: the node itself if it is
// a gas store, or its parent for a prefix store sitting directly on a gas store.
func (e *exec) gasFor(n int) (*ledger, int) {
	if e.tr.Nodes[n].Kind == "gas" {
		return e.ledgers[n], n
	}
	if e.tr.Nodes[n].Kind == "prefix" {
		if p := e.tr.Nodes[n].Parent; p >= 0 && e.tr.Nodes[p].Kind == "gas" {
			return e.ledgers[p], p
		}
	}
	return nil, -1
}

type outcome struct {
	panicked string // "" | oog | overflow | trace | other:<msg>
	val      []byte
	has      bool
	ok       bool // result of Has / Valid
}

func classify(r interface{}) string {
	switch x := r.(type) {
	case stypes.ErrorOutOfGas:
		return "oog"
	case stypes.ErrorGasOverflow:
		return "overflow"
	case string:
		if strings.Contains(x, "failed to write trace operation") {
			return "trace"
		}
		return "other:" + x
	case error:
		return "other:" + x.Error()
	}
	return fmt.Sprintf("other:%v", r)
}

func executeSeq(tr *Trace) (*core.Result, error) {
	core.SetMapSeed(core.SplitMix64(tr.Seed ^ 0x6b76))
	defer core.ClearMapSeed()
	// first pass for gas nodes whose limit is defined by a position in the program
	need := false
	for _, nd := range tr.Nodes {
		if nd.Kind == "gas" && nd.LimitAfterOp > 0 {
			need = true
		}
	}
	if need {
		probe := tr.Clone()
		for i := range probe.Nodes {
			probe.Nodes[i].LimitAfterOp = 0
			if probe.Nodes[i].Kind == "gas" && tr.Nodes[i].LimitAfterOp > 0 {
				probe.Nodes[i].GasLimit = 0
			}
		}
		pe := &exec{tr: probe, res: &core.Result{Stats: core.NewStats()}, iters: map[int]*iterState{}, touched: map[int]bool{}}
		if err := pe.build(); err != nil {
			return nil, err
		}
		at := map[int]uint64{}
		for i := range probe.Ops {
			if pe.stop {
				break
			}
			pe.step = i
			pe.do(&probe.Ops[i])
			for n, nd := range tr.Nodes {
				if nd.Kind == "gas" && nd.LimitAfterOp == i+1 && pe.ledgers[n] != nil {
					at[n] = pe.ledgers[n].consumed
				}
			}
		}
		for _, it := range pe.iters {
			if !it.closed && it.real != nil {
				func() { defer func() { recover() }(); it.real.Close() }()
			}
		}
		tr = tr.Clone()
		for n := range tr.Nodes {
			if tr.Nodes[n].Kind == "gas" && tr.Nodes[n].LimitAfterOp > 0 {
				tr.Nodes[n].GasLimit = at[n] // 0 (never reached) = unlimited
				tr.Nodes[n].LimitAfterOp = 0
			}
		}
	}
	e := &exec{tr: tr, res: &core.Result{Stats: core.NewStats()}, iters: map[int]*iterState{}, touched: map[int]bool{}}
	if err := e.build(); err != nil {
		return nil, err
	}
	for i := range tr.Ops {
		if e.stop {
			break
		}
		e.step = i
		e.do(&tr.Ops[i])
		e.checkBases()
	}
	e.finish()
	return e.res, nil
}

func (e *exec) finish() {
	// decoded trace lines equal the expected sequence
	for i, w := range e.writers {
		if w == nil {
			continue
		}
		var got []traceLine
		dec := json.NewDecoder(bytes.NewReader(w.buf.Bytes()))
		for {
			var tj traceLineJSON
			err := dec.Decode(&tj)
			tl := traceLine{tj.Operation, tj.Key, tj.Value, fmt.Sprint(tj.Metadata)}
			if err != nil {
				if err != io.EOF {
					e.viol("C16", "trace-undecodable", map[string]string{"stack": e.stackOf(i)}, "trace output cannot be decoded: %v", err)
				}
				break
			}
			got = append(got, tl)
		}
		want := e.expTrace[i]
		if len(got) != len(want) {
			e.viol("C16", "trace-sequence", map[string]string{"stack": e.stackOf(i), "what": "length"}, "trace has %d lines, the operations performed give %d", len(got), len(want))
		} else {
			for j := range got {
				if got[j] != want[j] {
					e.viol("C16", "trace-sequence", map[string]string{"stack": e.stackOf(i), "what": "line"}, "trace line %d is %+v, expected %+v", j, got[j], want[j])
					break
				}
			}
		}
		e.res.Stats.C("trace_lines_checked", int64(len(got)))
	}
	for _, it := range e.iters {
		if !it.closed && it.real != nil {
			func() { defer func() { recover() }(); it.real.Close() }()
		}
	}
	h := sha256.New()
	for _, l := range e.log {
		h.Write([]byte(l))
		h.Write([]byte{'\n'})
	}
	for _, v := range e.res.Violations {
		h.Write([]byte(v.Signature()))
	}
	e.res.Digest = hex.EncodeToString(h.Sum(nil)[:12])
	th := sha256.Sum256(e.tr.Marshal())
	e.res.TraceHash = hex.EncodeToString(th[:8])
	c := e.res.Stats.Counters
	e.res.NonTrivial = c["op_set"]+c["op_del"] >= 1 && c["op_get"]+c["op_has"]+c["op_iopen"] >= 1
}

// checkBases: writes land in a base store only through Write(): every base equals its model after every step.
func (e *exec) checkBases() {
	for i, nd := range e.tr.Nodes {
		switch nd.Kind {
		case "base", "iavl":
			e.compareDump(e.real[i], e.model[i].view(), i, "base-content")
		case "multi":
			for s := range e.rbases[i] {
				e.compareDump(e.rbases[i][s], e.mbases[i][s].view(), i, "multi-base-content")
			}
		}
	}
}

func (e *exec) compareDump(st stypes.KVStore, want []kv, n int, oracle string) {
	it := st.Iterator(nil, nil)
	defer it.Close()
	i := 0
	for ; it.Valid(); it.Next() {
		if i >= len(want) || !bytes.Equal(it.Key(), want[i].k) || !bytes.Equal(it.Value(), want[i].v) {
			e.viol("C15", oracle, map[string]string{"stack": e.stackOf(n)}, "the store under the wrappers holds %X=%X at position %d, the model says otherwise (parent must be unchanged until Write and equal the overlay after it)", it.Key(), it.Value(), i)
			e.stop = true
			return
		}
		i++
	}
	if i != len(want) {
		e.viol("C15", oracle, map[string]string{"stack": e.stackOf(n)}, "the store under the wrappers holds %d pairs, the model %d", i, len(want))
		e.stop = true
	}
}

func (e *exec) do(op *Op) {
	st := e.res.Stats
	st.C("op_"+op.K, 1)
	if op.N < 0 || op.N >= len(e.tr.Nodes) {
		return
	}
	st.State(e.stackOf(op.N) + ":" + op.K)
	prop := e.propOf(op.N)
	attrs := map[string]string{"op": op.K, "stack": e.stackOf(op.N)}
	mism := func(what string, f string, a ...interface{}) {
		at := map[string]string{"op": op.K, "stack": e.stackOf(op.N), "what": what}
		e.viol(prop, "result-vs-model", at, f, a...)
		e.stop = true
	}
	_ = attrs
	switch op.K {
	case "tctx":
		// the owner of the tracing context moves on (a new block, a new transaction): later lines carry the new values
		if tc := e.tctx[op.N]; tc != nil {
			tc["blockHeight"] = tc["blockHeight"].(int) + 1
			if tc["blockHeight"].(int)%2 == 0 {
				tc["txHash"] = fmt.Sprintf("%04X", tc["blockHeight"].(int)*7919)
			}
			st.C("trace_context_updates", 1)
		}
		return
	case "consume":
		// a charge made on the meter directly (what baseapp does for the block gas): same ledger, same rules
		led, gn := e.gasFor(op.N)
		if led == nil || led.dead != "" || e.tr.Nodes[op.N].Kind != "gas" {
			return
		}
		exp := led.consume(op.Amount)
		got := ""
		func() {
			defer func() {
				if r := recover(); r != nil {
					got = classify(r)
				}
			}()
			e.meters[gn].ConsumeGas(op.Amount, "direct")
		}()
		e.log = append(e.log, fmt.Sprintf("consume n%d %d p=%s", op.N, op.Amount, got))
		if got != exp {
			oracle := "panic-vs-model"
			if exp == "oog" || got == "oog" {
				oracle = "out-of-gas-position"
			}
			e.viol("C16", oracle, map[string]string{"op": "consume", "stack": e.stackOf(op.N), "expected": short(exp), "got": short(got)},
				"a direct charge of %d on %s: expected panic %q, got %q (ledger: %v)", op.Amount, e.stackOf(op.N), exp, got, ledgerStr(led))
			e.stop = true
			return
		}
		if exp == "overflow" {
			st.Probe("gas_overflow_reported")
			st.Probe("gas_overflow_reported_direct_charge")
			return
		}
		e.checkGas(op.N)
		return
	}
	nd := e.tr.Nodes[op.N]
	led, _ := e.gasFor(op.N)
	if led != nil && led.dead != "" {
		return // after a gas overflow the meter is not used any more
	}
	// usage contract of caching wrappers (see the generator): an operation that would change a store
	// underneath a wrapper that already holds reads of it is not executed (shrunk traces stay inside the contract)
	if nd.Kind == "multi" {
		// same usage contract for stacked cache multistores: a level that has a level above it is not changed
		// under a key (or a whole substore, once iterated) the upper level has read
		sub := op.Sub % len(e.mkeys[op.N])
		switch op.K {
		case "set", "del":
			if e.upperHasRead(op.N, sub, unhexp(op.Key)) {
				st.C("skipped_outside_usage_contract", 1)
				return
			}
		case "get", "has":
			if k := unhexp(op.Key); k != nil {
				e.multiRead(op.N, sub, string(k))
			}
		case "iopen":
			e.multiRead(op.N, sub, "*")
		}
	}
	if nd.Kind != "multi" {
		switch op.K {
		case "set", "del":
			if !e.mayChangeView(e.landing(op.N), -1) {
				st.C("skipped_outside_usage_contract", 1)
				return
			}
		case "write":
			if nd.Kind == "cache" && !e.mayChangeView(e.landing(nd.Parent), op.N) {
				st.C("skipped_outside_usage_contract", 1)
				return
			}
		}
		switch op.K {
		case "get", "has", "set", "del", "iopen":
			for y := op.N; y >= 0; y = e.tr.Nodes[y].Parent {
				if e.tr.Nodes[y].Kind == "cache" {
					e.touched[y] = true
				}
			}
		case "write":
			if nd.Kind == "cache" {
				defer func() { e.touched[op.N] = false }()
			}
		}
	}
	isTrace := nd.Kind == "trace"
	w := e.writers[op.N]
	// expected trace-writer behaviour of one writeOperation: (panics?, line recorded?)
	traceWrite := func(tl traceLine) (panics bool) {
		if w.wouldFail() {
			return true
		}
		e.expTrace[op.N] = append(e.expTrace[op.N], tl)
		return false
	}
	b64 := func(b []byte) string { return base64.StdEncoding.EncodeToString(b) }
	switch op.K {
	case "get", "has", "set", "del":
		key := unhexp(op.Key)
		if key == nil {
			return
		}
		rs, ms := e.realStore(op), e.modelStore(op)
		// ---- expectation
		exp := outcome{}
		mv, mhas := ms.get(key)
		apply := true // does the delegated write happen?
		switch op.K {
		case "get":
			if led != nil {
				if r := led.consume(e.gascfg.ReadCostFlat); r != "" {
					exp.panicked = r
				} else if r := led.consume(e.gascfg.ReadCostPerByte * uint64(len(mv))); r != "" {
					exp.panicked = r
				}
			}
			if isTrace && exp.panicked == "" {
				if traceWrite(traceLine{"read", b64(key), b64(mv), e.metaOf(op.N)}) {
					exp.panicked = "trace"
				}
			}
			exp.val, exp.has = mv, mhas
		case "has":
			if led != nil {
				if r := led.consume(e.gascfg.HasCost); r != "" {
					exp.panicked = r
				}
			}
			exp.ok = mhas
		case "set":
			val := unhexp(op.Val)
			if val == nil {
				return
			}
			if led != nil {
				if r := led.consume(e.gascfg.WriteCostFlat); r != "" {
					exp.panicked, apply = r, false
				} else if r := led.consume(e.gascfg.WriteCostPerByte * uint64(len(val))); r != "" {
					exp.panicked, apply = r, false
				}
			}
			if isTrace && exp.panicked == "" {
				if traceWrite(traceLine{"write", b64(key), b64(val), e.metaOf(op.N)}) {
					exp.panicked, apply = "trace", false
				}
			}
			if apply {
				ms.set(key, val)
				e.noteWrite(op.N, op.Sub, key)
				e.recordViews()
			}
		case "del":
			if led != nil {
				if r := led.consume(e.gascfg.DeleteCost); r != "" {
					exp.panicked, apply = r, false
				}
			}
			if isTrace && exp.panicked == "" {
				if traceWrite(traceLine{"delete", b64(key), b64(nil), e.metaOf(op.N)}) {
					exp.panicked, apply = "trace", false
				}
			}
			if apply {
				ms.del(key)
				e.noteWrite(op.N, op.Sub, key)
				e.recordViews()
			}
		}
		// ---- the real call
		var got outcome
		func() {
			defer func() {
				if r := recover(); r != nil {
					got.panicked = classify(r)
				}
			}()
			switch op.K {
			case "get":
				got.val = rs.Get(key)
				got.has = got.val != nil
			case "has":
				got.ok = rs.Has(key)
			case "set":
				rs.Set(key, unhexp(op.Val))
			case "del":
				rs.Delete(key)
			}
		}()
		e.log = append(e.log, fmt.Sprintf("%s n%d %x -> %x %v %v p=%s", op.K, op.N, key, got.val, got.has, got.ok, got.panicked))
		if got.panicked != exp.panicked {
			at := map[string]string{"op": op.K, "stack": e.stackOf(op.N), "expected": short(exp.panicked), "got": short(got.panicked)}
			oracle := "panic-vs-model"
			if exp.panicked == "oog" || got.panicked == "oog" {
				oracle = "out-of-gas-position"
			}
			e.viol(prop, oracle, at, "%s on %s: expected panic %q, got %q (gas consumed by the ledger: %v)", op.K, e.stackOf(op.N), exp.panicked, got.panicked, ledgerStr(led))
			e.stop = true
			return
		}
		if exp.panicked != "" {
			st.Probe("expected_panic:" + exp.panicked)
			if exp.panicked == "overflow" {
				st.Probe("gas_overflow_reported")
			}
			e.checkGas(op.N)
			return
		}
		switch op.K {
		case "get":
			if got.has != exp.has || !bytes.Equal(got.val, exp.val) {
				mism("value", "Get(%X) on %s returned %X (present=%v), the model says %X (present=%v)", key, e.stackOf(op.N), got.val, got.has, exp.val, exp.has)
			}
		case "has":
			if got.ok != exp.ok {
				mism("has", "Has(%X) on %s returned %v, the model says %v", key, e.stackOf(op.N), got.ok, exp.ok)
			}
		}
		e.checkGas(op.N)
	case "write":
		if nd.Kind == "cache" {
			touched := e.model[op.N].(*mCache).write()
			for _, k := range touched {
				e.noteWrite(nd.Parent, 0, k)
			}
			e.recordViews()
			var p string
			func() {
				defer func() {
					if r := recover(); r != nil {
						p = classify(r)
					}
				}()
				e.caches[op.N].Write()
			}()
			if p != "" {
				e.viol("C15", "panic-vs-model", map[string]string{"op": "write", "stack": e.stackOf(op.N)}, "Write panicked: %s", p)
				e.stop = true
			}
			if !e.landsInCache(nd.Parent) {
				e.markAllWeak()
			}
		} else if nd.Kind == "multi" {
			for _, it := range e.iters {
				if !it.closed && e.tr.Nodes[it.node].Kind == "multi" && e.multiRoot(it.node) == e.multiRoot(op.N) && nd.Parent < 0 {
					// MemDB iterators read values lazily: writing the substores' bases while one is open (on this level
					// or on one stacked on it) is outside what the base store supports
					st.C("skipped_outside_usage_contract", 1)
					return
				}
			}
			if nd.Parent >= 0 {
				// the level below receives sets and deletes: the same contract as for a set issued on it
				for s := range e.mcaches[op.N] {
					for k := range e.mcaches[op.N][s].d {
						if e.upperHasReadExcept(nd.Parent, s, []byte(k), op.N) {
							st.C("skipped_outside_usage_contract", 1)
							return
						}
					}
				}
			}
			for s := range e.mcaches[op.N] {
				e.mcaches[op.N][s].write()
			}
			e.multis[op.N].Write()
			if nd.Parent < 0 {
				e.markAllWeak()
			} else {
				st.C("nested_multi_writes", 1)
			}
		}
		e.log = append(e.log, fmt.Sprintf("write n%d", op.N))
	case "iopen":
		e.iterOpen(op, prop)
	case "inext", "ikey", "ival", "ivalid", "iclose":
		e.iterOp(op, prop)
	}
}

func short(s string) string {
	if len(s) > 40 {
		return s[:40]
	}
	return s
}

func ledgerStr(l *ledger) string {
	if l == nil {
		return "none"
	}
	return fmt.Sprintf("%d/limit %d (infinite=%v)", l.consumed, l.limit, l.infinite)
}

// checkGas: GasConsumed equals the independent ledger after every operation.
func (e *exec) checkGas(n int) {
	led, gn := e.gasFor(n)
	if led == nil || led.dead != "" {
		return
	}
	if got := e.meters[gn].GasConsumed(); got != led.consumed {
		e.viol("C16", "gas-ledger", map[string]string{"stack": e.stackOf(n)}, "GasConsumed is %d, the documented table applied to the operations performed gives %d", got, led.consumed)
		e.stop = true
	}
	e.res.Stats.C("gas_checks", 1)
}

// ---------------------------------------------------------------- iterators

func (e *exec) iterOpen(op *Op, prop string) {
	if _, dup := e.iters[op.It]; dup {
		return
	}
	rs, ms := e.realStore(op), e.modelStore(op)
	start, end := unhexp(op.Start), unhexp(op.End)
	snap := rangeOf(ms.view(), start, end, op.Desc)
	led, _ := e.gasFor(op.N)
	exp := ""
	if led != nil && len(snap) > 0 {
		// one seek charge for the position the new iterator lands on
		if r := led.consume(e.gascfg.ReadCostPerByte * uint64(len(snap[0].v))); r != "" {
			exp = r
		} else if r := led.consume(e.gascfg.IterNextCostFlat); r != "" {
			exp = r
		}
	}
	var it stypes.Iterator
	got := ""
	func() {
		defer func() {
			if r := recover(); r != nil {
				got = classify(r)
			}
		}()
		if op.Desc {
			it = rs.ReverseIterator(start, end)
		} else {
			it = rs.Iterator(start, end)
		}
	}()
	e.log = append(e.log, fmt.Sprintf("iopen n%d it%d [%x,%x) desc=%v p=%s", op.N, op.It, start, end, op.Desc, got))
	if got != exp {
		oracle := "panic-vs-model"
		if exp == "oog" || got == "oog" {
			oracle = "out-of-gas-position"
		}
		e.viol(prop, oracle, map[string]string{"op": "iopen", "stack": e.stackOf(op.N), "expected": short(exp), "got": short(got)},
			"opening an iterator on %s: expected panic %q, got %q", e.stackOf(op.N), exp, got)
		e.stop = true
		return
	}
	if exp != "" {
		e.res.Stats.Probe("expected_panic:" + exp)
		e.checkGas(op.N)
		return
	}
	is := &iterState{real: it, node: op.N, sub: op.Sub, snap: snap, desc: op.Desc, start: start, end: end,
		touch: map[string]bool{}, hist: map[string][][]byte{}, snapVal: map[string][]byte{}, keysReadEveryStep: true}
	for _, kvp := range snap {
		is.snapVal[e.fullKey(op.N, op.Sub, kvp.k)] = kvp.v
	}
	e.iters[op.It] = is
	if len(snap) == 0 {
		e.res.Stats.Probe("empty_range_iterator")
	}
	e.checkGas(op.N)
}

// multiRead records that level n of a stack of cache multistores has read key k of substore sub ("*": iterated it).
func (e *exec) multiRead(n, sub int, k string) {
	if e.mreads == nil {
		e.mreads = map[[2]int]map[string]bool{}
	}
	m := e.mreads[[2]int{n, sub}]
	if m == nil {
		m = map[string]bool{}
		e.mreads[[2]int{n, sub}] = m
	}
	m[k] = true
}

func (e *exec) multiRoot(n int) int {
	for e.tr.Nodes[n].Parent >= 0 {
		n = e.tr.Nodes[n].Parent
	}
	return n
}

// upperHasRead: some level stacked (directly or not) on multi node n has read key k of substore sub.
func (e *exec) upperHasRead(n, sub int, k []byte) bool { return e.upperHasReadExcept(n, sub, k, -1) }

func (e *exec) upperHasReadExcept(n, sub int, k []byte, except int) bool {
	for c, nd := range e.tr.Nodes {
		if nd.Kind != "multi" || c == n || c == except {
			continue
		}
		above, viaExcept := false, false
		for y := nd.Parent; y >= 0; y = e.tr.Nodes[y].Parent {
			if y == n {
				above = true
			}
			if y == except {
				viaExcept = true // it looks through the level that is writing: its view does not change
			}
		}
		if !above || viaExcept {
			continue
		}
		if m := e.mreads[[2]int{c, sub}]; m != nil && (m["*"] || (k != nil && m[string(k)])) {
			return true
		}
	}
	return false
}

// fullKey maps key k of node n (substore sub of a multi node) to the key space of the base store.
func (e *exec) fullKey(n, sub int, k []byte) string {
	if e.tr.Nodes[n].Kind == "multi" {
		return fmt.Sprintf("m%d.%d:", n, sub) + string(k)
	}
	key := append([]byte{}, k...)
	root := n
	for y := n; y >= 0; y = e.tr.Nodes[y].Parent {
		if e.tr.Nodes[y].Kind == "prefix" {
			p, _ := hex.DecodeString(e.tr.Nodes[y].Prefix)
			key = append(append([]byte{}, p...), key...)
		}
		root = y
	}
	return fmt.Sprintf("b%d:", root) + string(key)
}

// noteWrite: key k (in node n's key space) changed while iterators are open. An iterator that can see
// that key falls under the two-sided rule for it: whatever it yields for the key must be a value its
// store's view held at some moment between open and yield; keys nobody touched are held to the snapshot.
func (e *exec) noteWrite(n, sub int, k []byte) {
	if e.landsInCache(n) {
		// the write stays in a caching wrapper: every open iterator took a private copy of that wrapper's dirty
		// items when it was created, so it keeps yielding exactly the overlay it was created on (strong rule)
		e.res.Stats.C("writes", 1)
		e.res.Stats.C("writes_under_open_iterators_strong", int64(e.openIters()))
		return
	}
	fk := e.fullKey(n, sub, k)
	for _, it := range e.iters {
		if it.closed {
			continue
		}
		it.weak = true
		it.touch[fk] = true
	}
	e.res.Stats.C("writes", 1)
}

// recordViews is called after every write: for every touched key of every open iterator it records the
// value the iterator's store shows for it now.
func (e *exec) recordViews() {
	for _, it := range e.iters {
		if it.closed || len(it.touch) == 0 {
			continue
		}
		var ms mNode
		if e.tr.Nodes[it.node].Kind == "multi" {
			ms = e.mcaches[it.node][it.sub%len(e.mcaches[it.node])]
		} else {
			ms = e.model[it.node]
		}
		seen := map[string]bool{}
		for _, kvp := range ms.view() {
			fk := e.fullKey(it.node, it.sub, kvp.k)
			if it.touch[fk] {
				it.hist[fk] = append(it.hist[fk], append([]byte{}, kvp.v...))
				seen[fk] = true
			}
		}
	}
}

// landsInCache: a write issued on node n ends up in the dirty set of a cachekv store (not in a base store).
func (e *exec) landsInCache(n int) bool {
	if n < 0 {
		return false
	}
	k := e.tr.Nodes[e.landing(n)].Kind
	return k == "cache" || k == "multi"
}

func (e *exec) openIters() int {
	c := 0
	for _, it := range e.iters {
		if !it.closed {
			c++
		}
	}
	return c
}

func (e *exec) markAllWeak() {
	for _, it := range e.iters {
		if !it.closed {
			it.weak = true
		}
	}
}

func (e *exec) iterOp(op *Op, prop string) {
	it, ok := e.iters[op.It]
	if !ok || it.closed {
		return
	}
	n := it.node
	nd := e.tr.Nodes[n]
	led, _ := e.gasFor(n)
	if led != nil && led.dead != "" {
		return
	}
	isTrace := nd.Kind == "trace"
	w := e.writers[n]
	mism := func(what string, f string, a ...interface{}) {
		e.viol(prop, "iterator-vs-model", map[string]string{"op": op.K, "stack": e.stackOf(n), "what": what, "weak": fmt.Sprint(it.weak)}, f, a...)
		e.stop = true
	}
	modelValid := it.pos < len(it.snap)
	call := func(f func()) string {
		p := ""
		func() {
			defer func() {
				if r := recover(); r != nil {
					p = classify(r)
				}
			}()
			f()
		}()
		return p
	}
	switch op.K {
	case "ivalid":
		var v bool
		if p := call(func() { v = it.real.Valid() }); p != "" {
			mism("panic", "Valid() panicked: %s", p)
			return
		}
		e.log = append(e.log, fmt.Sprintf("ivalid it%d -> %v", op.It, v))
		if !it.weak && v != modelValid {
			mism("valid", "iterator %d on %s: Valid()=%v at position %d of %d", op.It, e.stackOf(n), v, it.pos, len(it.snap))
		}
		if it.weak && v && !modelValid && it.yieldedUntouched > len(it.snap) {
			mism("valid", "iterator yields more than the overlay held")
		}
	case "ikey", "ival":
		if !it.weak && !modelValid {
			return // calling Key/Value on an exhausted iterator panics by contract; not generated on purpose
		}
		var b []byte
		var valid bool
		if p := call(func() { valid = it.real.Valid() }); p != "" || !valid {
			if !it.weak {
				mism("valid", "iterator %d on %s is invalid at position %d of %d", op.It, e.stackOf(n), it.pos, len(it.snap))
			}
			return
		}
		exp := ""
		if isTrace {
			// expected line is appended after the call (it needs the actual bytes only under the weak rule)
			if w.wouldFail() {
				exp = "trace"
			}
		}
		p := call(func() {
			if op.K == "ikey" {
				b = it.real.Key()
			} else {
				b = it.real.Value()
			}
		})
		e.log = append(e.log, fmt.Sprintf("%s it%d -> %x p=%s", op.K, op.It, b, p))
		if p != exp {
			e.viol(prop, "panic-vs-model", map[string]string{"op": op.K, "stack": e.stackOf(n), "expected": short(exp), "got": short(p)}, "%s panicked %q, expected %q", op.K, p, exp)
			e.stop = true
			return
		}
		if p != "" {
			return
		}
		if isTrace {
			if op.K == "ikey" {
				e.expTrace[n] = append(e.expTrace[n], traceLine{"iterKey", base64.StdEncoding.EncodeToString(b), "", e.metaOf(n)})
			} else {
				e.expTrace[n] = append(e.expTrace[n], traceLine{"iterValue", "", base64.StdEncoding.EncodeToString(b), e.metaOf(n)})
			}
		}
		if !it.weak {
			want := it.snap[it.pos].k
			if op.K == "ival" {
				want = it.snap[it.pos].v
			}
			if !bytes.Equal(b, want) {
				mism("item", "iterator %d on %s (range [%X,%X) desc=%v) yields %s %X at position %d, the overlay has %X", op.It, e.stackOf(n), it.start, it.end, it.desc, op.K, b, it.pos, want)
			}
			return
		}
		// two-sided rule (a write happened while the iterator was open)
		if op.K == "ikey" {
			it.curKey = append([]byte{}, b...)
			if it.yielded == nil {
				it.yielded = map[string]bool{}
			}
			it.yielded[e.fullKey(n, it.sub, b)] = true
			it.readThisPos = true
		}
		if op.K == "ival" && it.curKey != nil {
			fk := e.fullKey(n, it.sub, it.curKey)
			ok := false
			if sv, has := it.snapVal[fk]; has && bytes.Equal(sv, b) {
				ok = true
			}
			for _, hv := range it.hist[fk] {
				if bytes.Equal(hv, b) {
					ok = true
				}
			}
			if !ok {
				mism("value-never-held", "iterator %d on %s yields %X=%X; its store never showed that value for the key between open and now (touched=%v)", op.It, e.stackOf(n), it.curKey, b, it.touch[fk])
			}
			if !it.touch[fk] {
				if _, has := it.snapVal[fk]; !has {
					mism("untouched-key-not-in-snapshot", "iterator %d on %s yields key %X which nobody wrote since it was opened and which was not in the overlay then", op.It, e.stackOf(n), it.curKey)
				}
			}
		}
		if op.K == "ikey" {
			if !inRange(b, it.start, it.end) {
				mism("range", "iterator yields key %X outside its range [%X,%X)", b, it.start, it.end)
			}
			if it.last != nil {
				c := bytes.Compare(it.last, b)
				if (!it.desc && c > 0) || (it.desc && c < 0) {
					mism("order", "iterator yields %X after %X (desc=%v)", b, it.last, it.desc)
				}
			}
		}
	case "inext":
		var valid bool
		if p := call(func() { valid = it.real.Valid() }); p != "" {
			mism("panic", "Valid() panicked: %s", p)
			return
		}
		if !valid {
			if !it.weak && modelValid {
				mism("valid", "iterator %d on %s ended at position %d of %d", op.It, e.stackOf(n), it.pos, len(it.snap))
			}
			if it.weak && it.keysReadEveryStep {
				// exhausted: every key of the snapshot that nobody touched must have been yielded
				for fk := range it.snapVal {
					if !it.touch[fk] && !it.yielded[fk] {
						mism("untouched-key-skipped", "iterator %d on %s ended without yielding an untouched key that was in the overlay when it was opened", op.It, e.stackOf(n))
						break
					}
				}
			}
			return
		}
		if !it.weak && !modelValid {
			mism("valid", "iterator %d on %s goes on past the %d items of the overlay", op.It, e.stackOf(n), len(it.snap))
			return
		}
		exp := ""
		if led != nil {
			var cur []byte
			if !it.weak {
				cur = it.snap[it.pos].v
			} else {
				call(func() { cur = it.real.Value() })
			}
			// one seek charge per step, for the position the iterator is on when Next is called
			if r := led.consume(e.gascfg.ReadCostPerByte * uint64(len(cur))); r != "" {
				exp = r
			} else if r := led.consume(e.gascfg.IterNextCostFlat); r != "" {
				exp = r
			}
		}
		if !isTrace {
			var key []byte
			call(func() { key = append([]byte{}, it.real.Key()...) })
			it.last = key
		}
		p := call(func() { it.real.Next() })
		e.log = append(e.log, fmt.Sprintf("inext it%d p=%s", op.It, p))
		if p != exp {
			oracle := "panic-vs-model"
			if exp == "oog" || p == "oog" {
				oracle = "out-of-gas-position"
			}
			e.viol(prop, oracle, map[string]string{"op": "inext", "stack": e.stackOf(n), "expected": short(exp), "got": short(p)}, "Next panicked %q, expected %q", p, exp)
			e.stop = true
			return
		}
		if p == "" {
			it.pos++
			it.curKey = nil
			if !it.readThisPos {
				it.keysReadEveryStep = false
			}
			it.readThisPos = false
		} else {
			e.res.Stats.Probe("expected_panic:" + p)
		}
		e.checkGas(n)
	case "iclose":
		call(func() { it.real.Close() })
		it.closed = true
		if !it.weak {
			e.res.Stats.C("iterators_checked_strictly", 1)
		} else {
			e.res.Stats.C("iterators_checked_weakly", 1)
		}
	}
}

func (e *exec) isAbove(d, x int) bool {
	for y := e.tr.Nodes[d].Parent; y >= 0; y = e.tr.Nodes[y].Parent {
		if y == x {
			return true
		}
	}
	return false
}

func (e *exec) mayChangeView(x, exceptSubtree int) bool {
	for d := range e.tr.Nodes {
		if e.tr.Nodes[d].Kind != "cache" || !e.touched[d] || !e.isAbove(d, x) {
			continue
		}
		if exceptSubtree >= 0 && (d == exceptSubtree || e.isAbove(d, exceptSubtree)) {
			continue
		}
		return false
	}
	return true
}

// landing is the node a write issued on n lands in: the first cache wrapper or base store on the way down
// (prefix, gas and trace stores pass writes through).
func (e *exec) landing(n int) int {
	for {
		switch e.tr.Nodes[n].Kind {
		case "prefix", "gas", "trace":
			n = e.tr.Nodes[n].Parent
		default:
			return n
		}
	}
}
