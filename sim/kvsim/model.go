// Package kvsim runs operation programs over trees of store wrappers
// (cachekv, prefix, gaskv, tracekv, cachemulti over a MemDB adapter or an IAVL
// store) against an independent sorted-map model (C15 sequential, C16), and
// concurrent client programs on one cachekv.Store under a seeded scheduler with
// a porcupine linearizability check (C15 concurrent).
package kvsim

import (
	"bytes"
	"encoding/hex"
	"encoding/json"
	"sort"
)

// ---------------------------------------------------------------- trace

type Node struct {
	Kind      string `json:"kind"` // base iavl cache prefix gas trace multi
	Parent    int    `json:"parent"`
	Prefix    string `json:"prefix,omitempty"`     // hex
	GasLimit  uint64 `json:"gas_limit,omitempty"`  // 0 = infinite meter
	GasStart  uint64 `json:"gas_start,omitempty"`  // gas consumed before the program starts
	// LimitAfterOp k > 0: the limit is exactly what the ledger shows after operation #k-1 of the program
	// (found by a first pass with an unlimited meter): the next charge crosses the limit, the k-th does not
	LimitAfterOp int `json:"limit_after_op,omitempty"`
	FailWrite int    `json:"fail_write,omitempty"` // trace: the n-th Write call of the writer fails (0 = never)
	Subs      int    `json:"subs,omitempty"`       // multi: number of substores
	// TraceCtx: the trace store is built with a tracing context (a live map the owner keeps updating: op "tctx")
	TraceCtx bool `json:"trace_ctx,omitempty"`
}

type Op struct {
	K     string  `json:"k"` // get has set del iopen inext ikey ival ivalid iclose write consume tctx
	N     int     `json:"n"`
	Amount uint64 `json:"amount,omitempty"` // consume: gas charged on the node's meter directly
	Sub   int     `json:"sub,omitempty"`
	Key   *string `json:"key,omitempty"` // hex
	Val   *string `json:"val,omitempty"`
	Start *string `json:"start,omitempty"` // nil = nil bound
	End   *string `json:"end,omitempty"`
	It    int     `json:"it,omitempty"`
	Desc  bool    `json:"desc,omitempty"`
}

type Trace struct {
	Engine   string `json:"engine"`
	Property string `json:"property"`
	Seed     uint64 `json:"seed"`
	Mode     string `json:"mode"` // seq | conc | subspace
	Nodes    []Node `json:"nodes,omitempty"`
	Ops      []Op   `json:"ops,omitempty"`
	// conc
	Clients [][]Op `json:"clients,omitempty"`
	Sched   []int  `json:"sched,omitempty"` // scheduler choices (index into the runnable list, modulo its length)
	Preload []Op   `json:"preload,omitempty"`
	// subspace mode
	Sub *SubTrace `json:"sub,omitempty"`
}

func (t *Trace) Marshal() []byte { b, _ := json.Marshal(t); return b }
func Unmarshal(b []byte) (*Trace, error) {
	var t Trace
	err := json.Unmarshal(b, &t)
	return &t, err
}
func (t *Trace) Clone() *Trace { c, _ := Unmarshal(t.Marshal()); return c }

func hs(b []byte) *string { s := hex.EncodeToString(b); return &s }
func unhexp(s *string) []byte {
	if s == nil {
		return nil
	}
	b, _ := hex.DecodeString(*s)
	if b == nil {
		b = []byte{}
	}
	return b
}

// ---------------------------------------------------------------- model

type kv struct{ k, v []byte }

type mNode interface {
	get(k []byte) ([]byte, bool)
	set(k, v []byte)
	del(k []byte)
	view() []kv // sorted ascending
}

type mBase struct{ m map[string][]byte }

func (b *mBase) get(k []byte) ([]byte, bool) { v, ok := b.m[string(k)]; return v, ok }
func (b *mBase) set(k, v []byte)             { b.m[string(k)] = append([]byte{}, v...) }
func (b *mBase) del(k []byte)                { delete(b.m, string(k)) }
func (b *mBase) view() []kv                  { return sortedMap(b.m) }

func sortedMap(m map[string][]byte) []kv {
	ks := make([]string, 0, len(m))
	for k := range m {
		ks = append(ks, k)
	}
	sort.Strings(ks)
	out := make([]kv, 0, len(ks))
	for _, k := range ks {
		out = append(out, kv{[]byte(k), m[k]})
	}
	return out
}

type dirty struct {
	v       []byte
	deleted bool
}

// mCache: the parent's content overlaid with this wrapper's own sets and deletes.
type mCache struct {
	parent mNode
	d      map[string]dirty
}

func (c *mCache) get(k []byte) ([]byte, bool) {
	if e, ok := c.d[string(k)]; ok {
		if e.deleted {
			return nil, false
		}
		return e.v, true
	}
	return c.parent.get(k)
}
func (c *mCache) set(k, v []byte) { c.d[string(k)] = dirty{v: append([]byte{}, v...)} }
func (c *mCache) del(k []byte)    { c.d[string(k)] = dirty{deleted: true} }
func (c *mCache) view() []kv {
	m := map[string][]byte{}
	for _, e := range c.parent.view() {
		m[string(e.k)] = e.v
	}
	for k, e := range c.d {
		if e.deleted {
			delete(m, k)
		} else {
			m[k] = e.v
		}
	}
	return sortedMap(m)
}

// write applies the overlay to the parent (in key order) and leaves the wrapper clean.
func (c *mCache) write() (touched [][]byte) {
	ks := make([]string, 0, len(c.d))
	for k := range c.d {
		ks = append(ks, k)
	}
	sort.Strings(ks)
	for _, k := range ks {
		e := c.d[k]
		if e.deleted {
			c.parent.del([]byte(k))
		} else {
			c.parent.set([]byte(k), e.v)
		}
		touched = append(touched, []byte(k))
	}
	c.d = map[string]dirty{}
	return
}

// mPrefix: exactly the parent's keys that start with the prefix, prefix stripped.
type mPrefix struct {
	parent mNode
	p      []byte
}

func (p *mPrefix) full(k []byte) []byte          { return append(append([]byte{}, p.p...), k...) }
func (p *mPrefix) get(k []byte) ([]byte, bool)   { return p.parent.get(p.full(k)) }
func (p *mPrefix) set(k, v []byte)               { p.parent.set(p.full(k), v) }
func (p *mPrefix) del(k []byte)                  { p.parent.del(p.full(k)) }
func (p *mPrefix) view() []kv {
	var out []kv
	for _, e := range p.parent.view() {
		if bytes.HasPrefix(e.k, p.p) {
			out = append(out, kv{e.k[len(p.p):], e.v})
		}
	}
	return out
}

// mPass: gas and trace wrappers return what the wrapped store returns.
type mPass struct{ parent mNode }

func (p *mPass) get(k []byte) ([]byte, bool) { return p.parent.get(k) }
func (p *mPass) set(k, v []byte)             { p.parent.set(k, v) }
func (p *mPass) del(k []byte)                { p.parent.del(k) }
func (p *mPass) view() []kv                  { return p.parent.view() }

// inRange: start inclusive, end exclusive, nil = unbounded.
func inRange(k, start, end []byte) bool {
	if start != nil && bytes.Compare(k, start) < 0 {
		return false
	}
	if end != nil && bytes.Compare(k, end) >= 0 {
		return false
	}
	return true
}

func rangeOf(v []kv, start, end []byte, desc bool) []kv {
	var out []kv
	for _, e := range v {
		if inRange(e.k, start, end) {
			out = append(out, e)
		}
	}
	if desc {
		for i, j := 0, len(out)-1; i < j; i, j = i+1, j-1 {
			out[i], out[j] = out[j], out[i]
		}
	}
	return out
}
