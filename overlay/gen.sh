#!/bin/bash
# Generates the build overlays under /verif/build/overlay (git-ignored):
#   1. tendermint rpc/client/httpclient.go  + SimTxLookup hook (the only socket in posmint: ante.go's tx-index lookup)
#   2. tendermint node/node.go              + NewSimNode constructor
#   3. $GOROOT/src/runtime/map.go           + seedable map iteration order / hash seed (replica divergence search)
#   4. $GOROOT/src/time/time.go             + settable wall clock (time.SetSimNow): replicas run with skewed clocks
#   4b. $GOROOT/src/time/sleep.go           + timers under simulated time (time.AdvanceSim): a stalled node
#   5. $GOROOT/src/os/proc.go               + os.Exit passes a simulator hook first (the code under test ending the process)
# Nothing in /repo is touched. The originals come from the module cache and GOROOT.
set -euo pipefail
export GOFLAGS=-mod=mod GOPROXY=off GOSUMDB=off GOTOOLCHAIN=local
HERE="$(cd "$(dirname "$0")" && pwd)"
VERIF="$(dirname "$HERE")"
OUT="$VERIF/build/overlay"
mkdir -p "$OUT"
cd "$VERIF/sim"
TM="$(go list -m -f '{{.Dir}}' github.com/tendermint/tendermint)"
GOROOT_DIR="$(go env GOROOT)"

# ---- 1. httpclient.go
src="$TM/rpc/client/httpclient.go"
dst="$OUT/tm_httpclient.go"
python3 - "$src" "$dst" <<'EOF'
import sys,re
s=open(sys.argv[1]).read()
needle="func (c *baseRPCClient) Tx(hash []byte, prove bool) (*ctypes.ResultTx, error) {\n"
assert needle in s
s=s.replace(needle, needle+"\tif SimTxLookup != nil {\n\t\treturn SimTxLookup(hash, prove)\n\t}\n",1)
s+="\n// SimTxLookup is set by the /verif simulator: the tx index is simulator-owned.\nvar SimTxLookup func(hash []byte, prove bool) (*ctypes.ResultTx, error)\n"
open(sys.argv[2],"w").write(s)
EOF

# ---- 2. node.go
src="$TM/node/node.go"
dst="$OUT/tm_node.go"
cp "$src" "$dst"
chmod u+w "$dst"
cat >> "$dst" <<'EOF'

// NewSimNode builds a Node shell carrying only what posmint reads from it
// (Config() and BlockStore()); used by the /verif simulator.
func NewSimNode(c *cfg.Config, bs *store.BlockStore) *Node {
	return &Node{config: c, blockStore: bs}
}
EOF

# ---- 3. runtime/map.go
src="$GOROOT_DIR/src/runtime/map.go"
dst="$OUT/runtime_map.go"
MAPSEAM=1
python3 - "$src" "$dst" <<'EOF' || MAPSEAM=0
import sys,re
s=open(sys.argv[1]).read()
n_iter=s.count("\tr := uintptr(rand())\n")
n_h0=s.count("h.hash0 = uint32(rand())")
if n_iter!=1 or n_h0<3:
    sys.exit(1)
s=s.replace("\tr := uintptr(rand())\n","\tr := uintptr(simMapIterRand(h))\n")
s=s.replace("h.hash0 = uint32(rand())","h.hash0 = uint32(simMapHashRand())")
s+='''
// ---- /verif simulator seam: seedable map iteration order and hash seed.
var simMapSeedOn uint32
var simMapSeed uint64
var simMapCtr uint64

func simMapMix(z uint64) uint64 {
	z = (z ^ (z >> 30)) * 0xBF58476D1CE4E5B9
	z = (z ^ (z >> 27)) * 0x94D049BB133111EB
	return z ^ (z >> 31)
}

// simMapIterRand: where an iteration starts is a function of the seed in force and of the map's size only - NOT of a
// running counter: how many maps a call creates or walks before it reaches a given loop depends on pools the garbage
// collector empties at its own times (encoding/json's encodeState, fmt), which made orders drift between executions.
func simMapIterRand(h *hmap) uint64 {
	if atomic.Load(&simMapSeedOn) == 0 {
		return rand()
	}
	return simMapMix(simMapSeed + (uint64(h.count)+1)*0x9E3779B97F4A7C15 + uint64(h.B)*0xD1B54A32D192ED03)
}

// simMapHashRand: one hash seed per simulator seed (bucket placement of maps with more than eight entries).
func simMapHashRand() uint64 {
	if atomic.Load(&simMapSeedOn) == 0 {
		return rand()
	}
	return simMapMix(simMapSeed ^ 0xA24BAED4963EE407)
}

// simSetMapSeed is reached from the simulator through go:linkname.
//
//go:linkname simSetMapSeed runtime.simSetMapSeed
func simSetMapSeed(on bool, seed uint64) {
	simMapSeed = seed
	atomic.Store64(&simMapCtr, 0)
	if on {
		atomic.Store(&simMapSeedOn, 1)
	} else {
		atomic.Store(&simMapSeedOn, 0)
	}
}
'''
open(sys.argv[2],"w").write(s)
EOF

# ---- 4. time/time.go: a settable wall clock (replicas with skewed clocks must still agree)
src="$GOROOT_DIR/src/time/time.go"
dst="$OUT/time_time.go"
CLOCKSEAM=1
python3 - "$src" "$dst" <<'EOF' || CLOCKSEAM=0
import sys
s=open(sys.argv[1]).read()
needle="func Now() Time {\n\tsec, nsec, mono := now()\n"
if s.count(needle)!=1 or 'import (' not in s:
    sys.exit(1)
s=s.replace(needle,"func Now() Time {\n\tif simNowOn.Load() != 0 {\n\t\tn := simNowNanos.Load()\n\t\treturn unixTime(n/1e9, int32(n%1e9))\n\t}\n\tsec, nsec, mono := now()\n")
s=s.replace('import (','import (\n\t"sync/atomic"',1)
s+="""
// ---- /verif simulator seam: a settable wall clock.
var simNowOn atomic.Int32
var simNowNanos atomic.Int64

// SetSimNow makes Now() return the given instant (on) or the real clock again (off).
func SetSimNow(on bool, unixNano int64) {
	simNowNanos.Store(unixNano)
	if on {
		simNowOn.Store(1)
	} else {
		simNowOn.Store(0)
		if simTimersRelease != nil {
			simTimersRelease()
		}
	}
}

// simTimersRelease is set by the timer seam (sleep.go overlay), if that one is compiled in.
var simTimersRelease func()
"""
open(sys.argv[2],"w").write(s)
EOF

# ---- 4b. time/sleep.go: timers armed while the simulated clock is on fire when SIMULATED time reaches them
# (time.AdvanceSim: a stalled node), never by themselves; when the simulated clock is switched off they become
# ordinary timers with what was left of their duration.
src="$GOROOT_DIR/src/time/sleep.go"
dst="$OUT/time_sleep.go"
TIMERSEAM=$CLOCKSEAM
python3 - "$src" "$dst" <<'EOF' || TIMERSEAM=0
import sys
s=open(sys.argv[1]).read()
n1="\tt := (*Timer)(newTimer(when(d), 0, sendTime, c, syncTimer(c)))\n\tt.C = c\n\treturn t\n"
n2="\tw := when(d)\n\treturn resetTimer(t, w, 0)\n"
n3="\treturn stopTimer(t)\n"
n4="\treturn (*Timer)(newTimer(when(d), 0, goFunc, f, nil))\n"
for n in (n1,n2,n3,n4):
    if s.count(n)!=1:
        sys.exit(1)
if 'import (' not in s:
    sys.exit(1)
s=s.replace(n1,"\tt := (*Timer)(newTimer(simWhen(d), 0, sendTime, c, syncTimer(c)))\n\tt.C = c\n\tsimTimerArm(t, d)\n\treturn t\n")
s=s.replace(n2,"\tw := simWhen(d)\n\tsimTimerArm(t, d)\n\treturn resetTimer(t, w, 0)\n")
s=s.replace(n3,"\tsimTimerDisarm(t)\n\treturn stopTimer(t)\n")
s=s.replace(n4,"\tt := (*Timer)(newTimer(simWhen(d), 0, goFunc, f, nil))\n\tsimTimerArm(t, d)\n\treturn t\n")
s=s.replace('import (','import (\n\t"sync"',1)
s+="""
// ---- /verif simulator seam: timers under simulated time.
const simFar = int64(1) << 56 // ~2 years: a timer parked until simulated time reaches it

var simTimers struct {
	mu  sync.Mutex
	now int64            // simulated nanoseconds elapsed (only AdvanceSim moves it)
	reg map[*Timer]int64 // parked timers -> simulated deadline
}

func init() { simTimersRelease = simRelease }

func simWhen(d Duration) int64 {
	if simNowOn.Load() != 0 && d > 0 {
		return runtimeNano() + simFar
	}
	return when(d)
}

func simTimerArm(t *Timer, d Duration) {
	simTimers.mu.Lock()
	if simNowOn.Load() != 0 && d > 0 {
		if simTimers.reg == nil {
			simTimers.reg = map[*Timer]int64{}
		}
		simTimers.reg[t] = simTimers.now + int64(d)
	} else if simTimers.reg != nil {
		delete(simTimers.reg, t)
	}
	simTimers.mu.Unlock()
}

func simTimerDisarm(t *Timer) {
	simTimers.mu.Lock()
	if simTimers.reg != nil {
		delete(simTimers.reg, t)
	}
	simTimers.mu.Unlock()
}

// AdvanceSim moves simulated time forward by d: Now() jumps, and every timer armed under simulated time whose
// deadline is reached fires. It returns how many fired.
func AdvanceSim(d Duration) int {
	simNowNanos.Add(int64(d))
	simTimers.mu.Lock()
	simTimers.now += int64(d)
	var due []*Timer
	for t, dl := range simTimers.reg {
		if dl <= simTimers.now {
			due = append(due, t)
		}
	}
	for _, t := range due {
		delete(simTimers.reg, t)
	}
	simTimers.mu.Unlock()
	for _, t := range due {
		resetTimer(t, runtimeNano(), 0)
	}
	return len(due)
}

// simRelease: simulated time was switched off; parked timers run on the real clock for what is left of them.
func simRelease() {
	simTimers.mu.Lock()
	reg := simTimers.reg
	simTimers.reg = nil
	now := simTimers.now
	simTimers.mu.Unlock()
	for t, dl := range reg {
		left := dl - now
		if left < 0 {
			left = 0
		}
		resetTimer(t, runtimeNano()+left, 0)
	}
}
"""
open(sys.argv[2],"w").write(s)
EOF

# ---- 5. os/proc.go: os.Exit passes a simulator hook first (the code under test ending the process is an event the
# simulator must see, not the end of the simulator)
src="$GOROOT_DIR/src/os/proc.go"
dst="$OUT/os_proc.go"
EXITSEAM=1
python3 - "$src" "$dst" <<'EOF' || EXITSEAM=0
import sys
s=open(sys.argv[1]).read()
needle="func Exit(code int) {\n"
if s.count(needle)!=1:
    sys.exit(1)
s=s.replace(needle,needle+"\tif h := SimExitHook; h != nil {\n\t\th(code)\n\t}\n",1)
s+="""
// SimExitHook, when set by the /verif simulator, is called by Exit before anything else (it may panic).
var SimExitHook func(code int)
"""
open(sys.argv[2],"w").write(s)
EOF

python3 - "$OUT" "$TM" "$GOROOT_DIR" "$MAPSEAM" "$CLOCKSEAM" "$TIMERSEAM" "$EXITSEAM" <<'EOF'
import sys,json
out,tm,goroot,mapseam=sys.argv[1:5]
clockseam=sys.argv[5]
timerseam=sys.argv[6]
exitseam=sys.argv[7]
rep={tm+"/rpc/client/httpclient.go":out+"/tm_httpclient.go",
     tm+"/node/node.go":out+"/tm_node.go"}
if mapseam=="1":
    rep[goroot+"/src/runtime/map.go"]=out+"/runtime_map.go"
if clockseam=="1":
    rep[goroot+"/src/time/time.go"]=out+"/time_time.go"
json.dump({"Replace":rep},open(out+"/../overlay.json","w"),indent=1)
open(out+"/../mapseam","w").write(mapseam+"\n")
if timerseam=="1":
    rep[goroot+"/src/time/sleep.go"]=out+"/time_sleep.go"
    json.dump({"Replace":rep},open(out+"/../overlay.json","w"),indent=1)
open(out+"/../clockseam","w").write(clockseam+"\n")
if exitseam=="1":
    rep[goroot+"/src/os/proc.go"]=out+"/os_proc.go"
    json.dump({"Replace":rep},open(out+"/../overlay.json","w"),indent=1)
open(out+"/../timerseam","w").write(timerseam+"\n")
open(out+"/../exitseam","w").write(exitseam+"\n")
EOF
echo "overlay generated: mapseam=$MAPSEAM clockseam=$CLOCKSEAM timerseam=$TIMERSEAM exitseam=$EXITSEAM"
