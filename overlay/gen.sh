#!/bin/bash
# Generates the build overlays under /verif/build/overlay (git-ignored):
#   1. tendermint rpc/client/httpclient.go  + SimTxLookup hook (the only socket in posmint: ante.go's tx-index lookup)
#   2. tendermint node/node.go              + NewSimNode constructor
#   3. $GOROOT/src/runtime/map.go           + seedable map iteration order / hash seed (replica divergence search)
#   4. $GOROOT/src/time/time.go             + settable wall clock (time.SetSimNow): replicas run with skewed clocks
# Nothing in /repo is touched. The originals come from the module cache and GOROOT.
set -euo pipefail
export GOFLAGS=-mod=mod GOPROXY=off GOSUMDB=off GOTOOLCHAIN=local
HERE="$(cd "$(dirname "$0")" && pwd)"
VERIF="$(dirname "$HERE")"
OUT="$VERIF/build/overlay"
mkdir -p "$OUT"
cd "$VERIF/sim"
TM="$(go list -m -f '{{.Dir}}' github.com/tendermint/tendermint)"
GOROOT_DIR="$(go env GOROOT)"

# ---- 1. httpclient.go
src="$TM/rpc/client/httpclient.go"
dst="$OUT/tm_httpclient.go"
python3 - "$src" "$dst" <<'EOF'
import sys,re
s=open(sys.argv[1]).read()
needle="func (c *baseRPCClient) Tx(hash []byte, prove bool) (*ctypes.ResultTx, error) {\n"
assert needle in s
s=s.replace(needle, needle+"\tif SimTxLookup != nil {\n\t\treturn SimTxLookup(hash, prove)\n\t}\n",1)
s+="\n// SimTxLookup is set by the /verif simulator: the tx index is simulator-owned.\nvar SimTxLookup func(hash []byte, prove bool) (*ctypes.ResultTx, error)\n"
open(sys.argv[2],"w").write(s)
EOF

# ---- 2. node.go
src="$TM/node/node.go"
dst="$OUT/tm_node.go"
cp "$src" "$dst"
chmod u+w "$dst"
cat >> "$dst" <<'EOF'

// NewSimNode builds a Node shell carrying only what posmint reads from it
// (Config() and BlockStore()); used by the /verif simulator.
func NewSimNode(c *cfg.Config, bs *store.BlockStore) *Node {
	return &Node{config: c, blockStore: bs}
}
EOF

# ---- 3. runtime/map.go
src="$GOROOT_DIR/src/runtime/map.go"
dst="$OUT/runtime_map.go"
MAPSEAM=1
python3 - "$src" "$dst" <<'EOF' || MAPSEAM=0
import sys,re
s=open(sys.argv[1]).read()
n_iter=s.count("\tr := uintptr(rand())\n")
n_h0=s.count("h.hash0 = uint32(rand())")
if n_iter!=1 or n_h0<3:
    sys.exit(1)
s=s.replace("\tr := uintptr(rand())\n","\tr := uintptr(simMapRand())\n")
s=s.replace("h.hash0 = uint32(rand())","h.hash0 = uint32(simMapRand())")
s+='''
// ---- /verif simulator seam: seedable map iteration order and hash seed.
var simMapSeedOn uint32
var simMapSeed uint64
var simMapCtr uint64

func simMapRand() uint64 {
	if atomic.Load(&simMapSeedOn) == 0 {
		return rand()
	}
	c := atomic.Xadd64(&simMapCtr, 1)
	z := simMapSeed + c*0x9E3779B97F4A7C15
	z = (z ^ (z >> 30)) * 0xBF58476D1CE4E5B9
	z = (z ^ (z >> 27)) * 0x94D049BB133111EB
	return z ^ (z >> 31)
}

// simSetMapSeed is reached from the simulator through go:linkname.
//
//go:linkname simSetMapSeed runtime.simSetMapSeed
func simSetMapSeed(on bool, seed uint64) {
	simMapSeed = seed
	atomic.Store64(&simMapCtr, 0)
	if on {
		atomic.Store(&simMapSeedOn, 1)
	} else {
		atomic.Store(&simMapSeedOn, 0)
	}
}
'''
open(sys.argv[2],"w").write(s)
EOF

# ---- 4. time/time.go: a settable wall clock (replicas with skewed clocks must still agree)
src="$GOROOT_DIR/src/time/time.go"
dst="$OUT/time_time.go"
CLOCKSEAM=1
python3 - "$src" "$dst" <<'EOF' || CLOCKSEAM=0
import sys
s=open(sys.argv[1]).read()
needle="func Now() Time {\n\tsec, nsec, mono := now()\n"
if s.count(needle)!=1 or 'import (' not in s:
    sys.exit(1)
s=s.replace(needle,"func Now() Time {\n\tif simNowOn.Load() != 0 {\n\t\tn := simNowNanos.Load()\n\t\treturn unixTime(n/1e9, int32(n%1e9))\n\t}\n\tsec, nsec, mono := now()\n")
s=s.replace('import (','import (\n\t"sync/atomic"',1)
s+="""
// ---- /verif simulator seam: a settable wall clock.
var simNowOn atomic.Int32
var simNowNanos atomic.Int64

// SetSimNow makes Now() return the given instant (on) or the real clock again (off).
func SetSimNow(on bool, unixNano int64) {
	simNowNanos.Store(unixNano)
	if on {
		simNowOn.Store(1)
	} else {
		simNowOn.Store(0)
	}
}
"""
open(sys.argv[2],"w").write(s)
EOF

python3 - "$OUT" "$TM" "$GOROOT_DIR" "$MAPSEAM" "$CLOCKSEAM" <<'EOF'
import sys,json
out,tm,goroot,mapseam=sys.argv[1:5]
clockseam=sys.argv[5]
rep={tm+"/rpc/client/httpclient.go":out+"/tm_httpclient.go",
     tm+"/node/node.go":out+"/tm_node.go"}
if mapseam=="1":
    rep[goroot+"/src/runtime/map.go"]=out+"/runtime_map.go"
if clockseam=="1":
    rep[goroot+"/src/time/time.go"]=out+"/time_time.go"
json.dump({"Replace":rep},open(out+"/../overlay.json","w"),indent=1)
open(out+"/../mapseam","w").write(mapseam+"\n")
open(out+"/../clockseam","w").write(clockseam+"\n")
EOF
echo "overlay generated: mapseam=$MAPSEAM clockseam=$CLOCKSEAM"
